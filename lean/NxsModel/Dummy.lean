/-
  Dummy: `intf/dummy.py` (DummyDev) as a sequential machine over a heap of channel objects.

  * A *world* is a heap (list of channel objects, the address is the list index) plus instances.
    An instance holds the *addresses* of its channel objects, so two instances may or may not
    share objects: the constructor of a default device either aliases the module-level default
    objects (addresses `0 … 10`) or allocates copies of them, according to
    `Gen.Dummy.defaultCopied`; custom channel lists are allocated fresh (`newCustom`) or use the
    addresses given (`newAt`).
  * An op on an instance reads the instance's channel objects from the heap (`gather`), runs the
    op on that list (`step`), and writes the objects back (`scatter`).  (One `Device` cannot hold
    the same object twice — `Device.__init__` asserts unique channel ids — so read-all / write-all
    is the in-place update of the code.)
  * Ops: `write bytes | recvStep | streamStep | read | start | stop`.
    `recvStep` is one iteration of `_thread_recv` (one item of `_qwrite` through
    `ParseRecv.recv_handle` and the callbacks of dummy.py:332-392), `streamStep` one iteration of
    `_thread_stream` (`_stream_data_get(snum)` + `frame_stream_encode`).  Thread iterations are
    atomic (method granularity); `stop` lets the threads finish as `ThreadCommon.thread_stop`
    does under that granularity (see `stopThreads`).
  * An exception inside a thread body ends that thread (`Thr.dead`): `assert chan` on an unknown
    channel id of a chinfo request, decode errors of malformed set requests, `struct.error` of an
    oversize stream batch (finding F17).
  * Deterministic generators (ChannelFunc1/2/5/6/7/8) are modelled exactly, including the float32 /
    float64 bit patterns of the small integers they produce; random / sine generators (0,3,4,9)
    produce the placeholder `PyVal.rnd` which is encoded as zero bits — compared by structure only.
  * A channel object carries `calls`, the `DeviceChannel._cntr` call counter: `data_get` hands it to the
    function (`func.get(self._cntr)`) and increments it on EVERY call with a function attached (also when
    the function returned `None`); `DeviceChannel.reset` zeroes it (`Gen.Dummy.resetZeroesCalls`, read
    from dev.py by the translator).  None of dummy.py's own functions reads the argument; the user-defined
    kinds 11 (value = call index) and 12 (sparse: a sample only when the call index is a multiple of 3,
    `None` otherwise) do — they are what makes the counter observable (finding F19, seeded C14-r3m2).
-/
import NxsModel.Dispatch
import NxsModel.Requests
import NxsModel.Info
import NxsModel.Stream
import NxsModel.Pad
import NxsModel.Gen.Dummy
namespace Nxs
namespace Dummy
open Gen.Ids

/-! ### values produced by the channel functions -/

/-- a Python value a channel function returns in `data` -/
inductive PyVal where
  | int (n : Int)          -- Python int
  | flt (n : Int)          -- Python float with the integer value `n` (1.0, 0.0, -1.0)
  | str (bs : Bytes)       -- Python str, as its UTF-8 bytes
  | rnd                    -- a float whose value is not modelled (random.random(), math.sin)
  deriving DecidableEq, Repr

/-- IEEE-754 bit pattern (exponent bias `bias`, `mbits` mantissa bits) of an integer with
    `|n| < 2^(mbits+1)` (exactly representable) -/
def floatBits (mbits ebits bias : Nat) (n : Int) : Nat :=
  if n = 0 then 0
  else
    let a := n.natAbs
    let e := a.log2
    let mant := if e ≤ mbits then (a - 2 ^ e) <<< (mbits - e) else (a - 2 ^ e) >>> (e - mbits)
    (if n < 0 then 2 ^ (mbits + ebits) else 0) + (e + bias) * 2 ^ mbits + mant

def f32OfInt (n : Int) : BitVec 32 := BitVec.ofNat 32 (floatBits 23 8 127 n)
def f64OfInt (n : Int) : BitVec 64 := BitVec.ofNat 64 (floatBits 52 11 1023 n)

/-- the wire-level representation `struct.pack` gives a Python value under the channel's format
    (`_stream_bytes_get`: `x * scale`, rounded to int for fixed-point types) -/
def toSVal (d : Stream.Dsfmt) : PyVal → Stream.SVal
  | .str bs => .text bs
  | .rnd =>
    match d.items with
    | [(_, .d)] => .f64 0
    | _ => .f32 0
  | .int n =>
    match d.items with
    | [(_, .f)] => .f32 (f32OfInt n)
    | [(_, .d)] => .f64 (f64OfInt n)
    | _ => if d.hasScale ∧ d.frac ≠ 0 then .fixed (n * 2 ^ d.frac) d.frac else .int n
  | .flt n =>
    match d.items with
    | [(_, .f)] => .f32 (f32OfInt n)
    | [(_, .d)] => .f64 (f64OfInt n)
    | _ => if d.hasScale ∧ d.frac ≠ 0 then .fixed (n * 2 ^ d.frac) d.frac
           else .f64 (f64OfInt n)        -- a float for an integer format: struct.error

/-! ### heap objects -/

/-- a `DeviceChannel` object with its `DDeviceChannelData` and the attached channel function -/
structure Chan where
  en : Bool
  type : Nat
  vdim : Nat
  div : Int
  mlen : Nat
  name : Bytes
  gen : Option Nat      -- `ChannelFunc<k>` (k ≤ 9), 10/11/12 = user-defined functions (see `genGet`), or no function
  cntr : Int            -- the function's `_cntr`
  sign : Int            -- the function's `_sign` (ChannelFunc2)
  calls : Nat           -- `DeviceChannel._cntr`: number of `data_get` calls with a function attached
  deriving DecidableEq, Repr

abbrev Heap := List Chan

def Chan.cfg (c : Chan) : Info.ChanCfg := ⟨c.en, c.type, c.vdim, c.div, c.mlen, c.name⟩

/-- `func.reset()` -/
def genReset (c : Chan) : Chan :=
  match c.gen with
  | some 1 | some 6 | some 7 | some 9 | some 10 => { c with cntr := 0 }
  | some 2 => { c with cntr := 0, sign := 1 }
  | _ => c

/-- `DeviceChannel.reset`: `if self._func is not None: self._func.reset()`, then `self._cntr = 0` -/
def Chan.reset (c : Chan) : Chan :=
  if Gen.Dummy.resetZeroesCalls then { genReset c with calls := 0 } else genReset c

def byteOfNat (n : Nat) : Byte := BitVec.ofNat 8 n

def helloBytes (nuls : Nat) : Bytes := Gen.Dummy.f6Text.map byteOfNat ++ List.replicate nuls 0

/-- `func.get(calls)`: new function state and the data/meta tuples (`none` = the function returned `None`);
    `calls` is the argument `DeviceChannel.data_get` passes: the number of earlier `data_get` calls since the
    last `reset` -/
def genGet (k vdim : Nat) (cntr sign : Int) (calls : Nat) : Int × Int × Option (List PyVal × List Int) :=
  match k with
  | 0 => (cntr, sign, some (List.replicate Gen.Dummy.f0Dim .rnd, []))
  | 1 =>
    let c := cntr + 1
    let c := if c > Gen.Dummy.f1Wrap then 0 else c
    (c, sign, some ([.int c], []))
  | 2 =>
    let c := cntr + 1 * sign
    let s := if c > Gen.Dummy.f2Hi then sign * -1 else if c < -Gen.Dummy.f2Lo then sign * -1 else sign
    (c, s, some ([.int c], []))
  | 3 => (cntr, sign, some (List.replicate Gen.Dummy.f3Dim .rnd, []))
  | 4 => (cntr, sign, some (List.replicate Gen.Dummy.f4Dim .rnd, []))
  | 5 => (cntr, sign, some (Gen.Dummy.f5Data.map .flt, []))
  | 6 =>
    if cntr % Gen.Dummy.f6Period = 0 then (cntr + 1, sign, some ([.str (helloBytes Gen.Dummy.f6Nuls)], []))
    else (cntr + 1, sign, none)
  | 7 =>
    let c := (cntr + 1) % Gen.Dummy.f7Mod
    (c, sign, some (Gen.Dummy.f7Data.map .int, [c]))
  | 8 => (cntr, sign, some ([], (helloBytes Gen.Dummy.f8Nuls).map fun b => (b.toNat : Int)))
  | 9 => ((cntr + 1) % Gen.Dummy.f9Mod, sign, some ([.rnd, .rnd, .rnd], []))
  | 10 =>
    -- not in dummy.py: a user-defined function (harness `VecFunc`): ChannelFunc1's counter in every component
    let c := cntr + 1
    let c := if c > 1000 then 0 else c
    (c, sign, some (List.replicate vdim (.int c), []))
  | 11 =>
    -- not in dummy.py: a user-defined stateless function (harness `IdxFunc`): `get(cntr) -> (cntr,) * vdim`
    (cntr, sign, some (List.replicate vdim (.int (calls : Int)), []))
  | 12 =>
    -- not in dummy.py: the sparse variant: `None` unless `cntr % 3 == 0`
    (cntr, sign, if calls % 3 = 0 then some (List.replicate vdim (.int (calls : Int)), []) else none)
  | _ => (cntr, sign, none)

/-- `DeviceChannel.data_get`: `ret = self._func.get(self._cntr); self._cntr += 1` (every call), `None` without a
    function -/
def Chan.dataGet (c : Chan) : Chan × Option (List PyVal × List Int) :=
  match c.gen with
  | none => (c, none)
  | some k =>
    let (cn, sg, r) := genGet k c.vdim c.cntr c.sign c.calls
    ({ c with cntr := cn, sign := sg, calls := c.calls + 1 }, r)

/-! ### instances -/

inductive Thr where
  | none      -- no thread object (`_thrd is None`)
  | alive
  | dead      -- the thread body raised; the thread object is still there
  deriving DecidableEq, Repr

structure Inst where
  addrs : List Nat          -- `Device._channels`, as addresses
  flags : Nat
  rxp : Nat
  snum : Nat                -- `stream_snum`
  wpad : Nat                -- `write_padding` of the interface (a client sets it to rxpadding)
  flag : Bool               -- `_stream_started`
  parse : Bool              -- `_parse is not None`
  recvThr : Thr
  streamThr : Thr
  qwrite : List Bytes
  qread : List Bytes
  deriving DecidableEq, Repr

/-- `Device.data.chmax` (`Device.__init__` asserts `len(channels) == chmax`) -/
def Inst.chmax (i : Inst) : Nat := i.addrs.length

def newInst (addrs : List Nat) (flags rxp snum wpad : Nat) : Inst :=
  ⟨addrs, flags, rxp, snum, wpad, false, false, .none, .none, [], []⟩

/-! ### device views (on the instance's channel objects, in channel order) -/

def ensOf (cs : List Chan) : List Bool := cs.map (·.en)
def divsOf (cs : List Chan) : List Int := cs.map (·.div)

/-- `for chid, en in enumerate(enables): channel_get(chid).data.en = en`; `assert chan` fails when
    the decoded vector is longer than the channel list (it never is: the decoders return `chmax`
    values) -/
def applyEn : List Chan → List Bool → Except Err (List Chan)
  | cs, [] => .ok cs
  | [], _ :: _ => .error .assertion
  | c :: cs, v :: vs => (applyEn cs vs).map fun r => { c with en := v } :: r

def applyDiv : List Chan → List Int → Except Err (List Chan)
  | cs, [] => .ok cs
  | [], _ :: _ => .error .assertion
  | c :: cs, v :: vs => (applyDiv cs vs).map fun r => { c with div := v } :: r

/-! ### receive thread -/

def ackIf (i : Inst) (guard : Bool) : Except Err (List Bytes) :=
  if !guard || Info.ackSupported i.flags then (Info.ackEncode 0).map fun b => [b] else .ok []

/-- the callback `cb` of `ParseRecvCb` on payload `p`: new channel state, new stream flag, frames
    put on `_qread` -/
def callback (cs : List Chan) (i : Inst) (cb : Nat) (p : Bytes) : Except Err (List Chan × Bool × List Bytes) :=
  match cb with
  | 0 => (Info.cmninfoEncode i.chmax i.flags i.rxp).map fun b => (cs, i.flag, [b])
  | 1 =>
    match p with
    | [] => .error .indexError
    | c :: _ =>
      match cs[c.toNat]? with
      | none => .error .assertion
      | some ch => (Info.chinfoEncode ch.cfg).map fun b => (cs, i.flag, [b])
  | 2 =>
    (Requests.frameEnableDecode p i.chmax (ensOf cs)).bind fun ens =>
      (applyEn cs ens).bind fun cs' =>
        (ackIf i Gen.Dummy.ackGuardEnable).map fun out => (cs', i.flag, out)
  | 3 =>
    (Requests.frameDivDecode p i.chmax (divsOf cs)).bind fun ds =>
      (applyDiv cs ds).bind fun cs' =>
        (ackIf i Gen.Dummy.ackGuardDiv).map fun out => (cs', i.flag, out)
  | 4 =>
    (Requests.frameStartDecode p).bind fun b =>
      (ackIf i Gen.Dummy.ackGuardStart).map fun out => (cs, b, out)
  | _ => .error .assertion

/-- what a step reports: nothing, or the exception that ended the thread -/
abbrev StepOut := Option Err

/-- `ParseRecv.recv_handle(data)` with the callbacks of the instance -/
def handle (cs : List Chan) (i : Inst) (data : Bytes) : List Chan × Inst × StepOut :=
  match Dispatch.recvHandle data with
  | .ignored => (cs, i, none)
  | .raised e => (cs, { i with recvThr := .dead }, some e)
  | .fired cb p =>
    match callback cs i cb p with
    | .ok (cs', fl, out) => (cs', { i with flag := fl, qread := i.qread ++ out }, none)
    | .error e => (cs, { i with recvThr := .dead }, some e)

/-- one iteration of `_thread_recv` -/
def recvStep (cs : List Chan) (i : Inst) : List Chan × Inst × StepOut :=
  if i.recvThr ≠ .alive then (cs, i, none)
  else
    match i.qwrite with
    | [] => (cs, i, none)
    | d :: rest => handle cs { i with qwrite := rest } d

/-! ### stream thread -/

/-- the sample `_stream_data_get` builds from what `data_get()` returned -/
def mkSample (c : Chan) (chid : Nat) (data : List PyVal) (mdata : List Int) : Stream.Sample :=
  let dt := Info.dtypeOf c.type
  let sv := match Stream.dsfmtGet dt [] with
    | .ok d => data.map (toSVal d)
    | .error _ => data.map (toSVal ⟨0, [], false, 0, 0, false⟩)
  ⟨chid, dt, c.vdim, c.mlen, sv, mdata⟩

/-- the inner loop of `_stream_data_get`: one round over the channels, ids counted from `chid` -/
def roundGet : List Chan → Nat → List Chan × List Stream.Sample
  | [], _ => ([], [])
  | c :: cs, chid =>
    if !Gen.Dummy.streamOnlyEnabled || c.en then
      let (c', r) := c.dataGet
      let (cs', rest) := roundGet cs (chid + 1)
      match r with
      | none => (c' :: cs', rest)
      | some (data, mdata) => (c' :: cs', mkSample c chid data mdata :: rest)
    else
      let (cs', rest) := roundGet cs (chid + 1)
      (c :: cs', rest)

/-- `_stream_data_get(snum)` -/
def dataGet (cs : List Chan) : Nat → List Chan × List Stream.Sample
  | 0 => (cs, [])
  | n + 1 =>
    let (cs', s) := roundGet cs 0
    let (cs'', r) := dataGet cs' n
    (cs'', s ++ r)

/-- the production part of `_thread_stream` (after the start event was found set) -/
def produce (cs : List Chan) (i : Inst) : List Chan × Inst × StepOut :=
  let (cs', ss) := dataGet cs i.snum
  match Stream.frameStreamEncode [] ss with
  | .ok none => (cs', i, none)
  | .ok (some f) => (cs', { i with qread := i.qread ++ [f] }, none)
  | .error e => (cs', { i with streamThr := .dead }, some e)

/-- one iteration of `_thread_stream` -/
def streamStep (cs : List Chan) (i : Inst) : List Chan × Inst × StepOut :=
  if i.streamThr ≠ .alive then (cs, i, none)
  else if Gen.Dummy.streamWaitsStarted && !i.flag then (cs, i, none)
  else produce cs i

/-! ### start / stop / read / write -/

/-- `Device.reset` -/
def resetAll (cs : List Chan) : List Chan := cs.map Chan.reset

/-- `start()`: new parser, device reset, threads created unless their objects still exist -/
def start (cs : List Chan) (i : Inst) : List Chan × Inst :=
  (if Gen.Dummy.startResets then resetAll cs else cs,
   { i with parse := true,
            recvThr := if i.recvThr = .none then .alive else i.recvThr,
            streamThr := if i.streamThr = .none then .alive else i.streamThr })

/-- `thread_stop` of the stream thread at method granularity: while the caller waits for the
    stream thread, that thread finishes its iteration — one more batch if the start event is set —
    and while it is still waiting for the event the receive thread keeps taking requests. -/
def stopStream : Nat → List Chan → Inst → List Chan × Inst × List Err
  | 0, cs, i => (cs, { i with streamThr := .none }, [])
  | fuel + 1, cs, i =>
    if i.streamThr ≠ .alive then (cs, { i with streamThr := .none }, [])
    else if i.flag || !Gen.Dummy.streamWaitsStarted then
      let (cs', i', e) := produce cs i
      (cs', { i' with streamThr := .none }, e.toList)
    else if i.recvThr = .alive ∧ i.qwrite ≠ [] then
      let (cs', i', e) := recvStep cs i
      let (cs'', i'', es) := stopStream fuel cs' i'
      (cs'', i'', e.toList ++ es)
    else (cs, { i with streamThr := .none }, [])

/-- `stop()`: stop the stream thread, then the receive thread (which finishes at most one more
    request), drop one queued item of each queue, forget the parser -/
def stop (cs : List Chan) (i : Inst) : List Chan × Inst × List Err :=
  let (cs1, i1, e1) := stopStream (i.qwrite.length + 1) cs i
  let (cs2, i2, e2) := recvStep cs1 i1
  let i3 := { i2 with recvThr := .none,
                      qwrite := if Gen.Dummy.stopDrainsOne then i2.qwrite.drop 1 else i2.qwrite,
                      qread := if Gen.Dummy.stopDrainsOne then i2.qread.drop 1 else i2.qread,
                      parse := false }
  (cs2, i3, e1 ++ e2.toList)

inductive Op where
  | write (d : Bytes)
  | recvStep
  | streamStep
  | read
  | start
  | stop
  deriving DecidableEq, Repr

/-- what an op lets the caller observe -/
inductive Obs where
  | none
  | bytes (b : Bytes)            -- result of `read()` (empty = timeout)
  | errs (es : List Err)         -- exceptions that ended library threads during the op
  deriving DecidableEq, Repr

def stepOutObs : StepOut → Obs
  | Option.none => .none
  | some e => .errs [e]

/-- one op on an instance whose channel objects are `cs` -/
def step (cs : List Chan) (i : Inst) : Op → List Chan × Inst × Obs
  | .write d => (cs, { i with qwrite := i.qwrite ++ [Pad.dataAlign i.wpad d] }, .none)
  | .recvStep => let (cs', i', e) := recvStep cs i; (cs', i', stepOutObs e)
  | .streamStep => let (cs', i', e) := streamStep cs i; (cs', i', stepOutObs e)
  | .read =>
    match i.qread with
    | [] => (cs, i, .bytes [])
    | f :: r => (cs, { i with qread := r }, .bytes f)
  | .start => let (cs', i') := start cs i; (cs', i', .none)
  | .stop => let (cs', i', es) := stop cs i; (cs', i', if es.isEmpty then .none else .errs es)

/-- a history on one instance -/
def run (cs : List Chan) (i : Inst) : List Op → List Chan × Inst × List Obs
  | [] => (cs, i, [])
  | op :: rest =>
    let (cs', i', o) := step cs i op
    let (cs'', i'', os) := run cs' i' rest
    (cs'', i'', o :: os)

/-! ### the heap: several instances -/

structure World where
  heap : Heap
  insts : List Inst
  deriving DecidableEq, Repr

def mkChan (r : Nat × Nat × Nat × List Nat × Option Nat) : Chan :=
  ⟨false, r.1, r.2.1, 0, r.2.2.1, r.2.2.2.1.map byteOfNat, r.2.2.2.2, 0, 1, 0⟩

/-- the module-level `DUMMY_DEV_CHANNELS`, at addresses `0 …` -/
def defaultObjs : List Chan := Gen.Dummy.defaultChannels.map mkChan
def nDefault : Nat := defaultObjs.length

/-- state after importing the module: the default objects, no instance -/
def World.init : World := ⟨defaultObjs, []⟩

/-- `n` fresh addresses after the end of the heap -/
def freshAddrs (h : Heap) (n : Nat) : List Nat := (List.range n).map (h.length + ·)

/-- `DummyDev(flags=…, rxpadding=…, stream_snum=…)` without a channel list -/
def World.newDefault (w : World) (flags rxp snum wpad : Nat) : World :=
  if Gen.Dummy.defaultCopied then
    -- deep copy of the *current* state of the module-level objects
    let cp := w.heap.take nDefault
    ⟨w.heap ++ cp, w.insts ++ [newInst (freshAddrs w.heap cp.length) flags rxp snum wpad]⟩
  else
    ⟨w.heap, w.insts ++ [newInst (List.range nDefault) flags rxp snum wpad]⟩

/-- `DummyDev(chmax=len(chans), channels=[freshly built objects], …)` -/
def World.newCustom (w : World) (chans : List Chan) (flags rxp snum wpad : Nat) : World :=
  match chans with
  | [] => w.newDefault flags rxp snum wpad      -- `if not channels:` takes the default
  | _ => ⟨w.heap ++ chans, w.insts ++ [newInst (freshAddrs w.heap chans.length) flags rxp snum wpad]⟩

/-- `DummyDev(channels=<objects that already exist>)` -/
def World.newAt (w : World) (addrs : List Nat) (flags rxp snum wpad : Nat) : World :=
  ⟨w.heap, w.insts ++ [newInst addrs flags rxp snum wpad]⟩

/-- the channel objects at the addresses, in order -/
def gather (h : Heap) (addrs : List Nat) : List Chan := addrs.filterMap (h[·]?)

/-- write the objects back to their addresses -/
def scatter (h : Heap) : List Nat → List Chan → Heap
  | a :: as, c :: cs => scatter (h.set a c) as cs
  | _, _ => h

/-- op `op` on instance number `k` of the world -/
def World.step (w : World) (k : Nat) (op : Op) : World × Obs :=
  match w.insts[k]? with
  | Option.none => (w, .none)
  | some i =>
    let (cs', i', o) := Dummy.step (gather w.heap i.addrs) i op
    (⟨scatter w.heap i.addrs cs', w.insts.set k i'⟩, o)

def World.run (w : World) : List (Nat × Op) → World × List Obs
  | [] => (w, [])
  | (k, op) :: rest =>
    let (w', o) := w.step k op
    let (w'', os) := w'.run rest
    (w'', o :: os)

end Dummy
end Nxs
