/-
  Pipe: the serial-port interface (`intf/serial.py` `SerialDevice` on top of
  `intf/iintf.py` `CommInterfaceCommon`) as a FIFO byte pipe between the client and the other end.

  Per direction two FIFO buffers: bytes *in flight* (handed to the OS by the sender, not yet visible
  to the receiver) and bytes *waiting* (in the receiver's OS buffer; for the client this is what
  `self._ser.in_waiting` counts).  The OS moves an arbitrary prefix from "in flight" to "waiting"
  (`osDeliver k`), which is where every chunking comes from.

  What the code does, op by op:
    write d     `CommInterfaceCommon.write` → `_fwrite(data_align(data))` → `self._ser.write(data)`
    setPad p    `write_padding = p`
    read        `CommInterfaceCommon.read` → `_fread()` → `self._ser.read(<size>)`; `<size>` is the generated
                `Gen.SerialIntf.readCount` applied to `in_waiting` (in the pinned source: `in_waiting` itself,
                i.e. everything waiting).  A size larger than what is waiting makes pyserial wait for
                more until the port timeout; this is recorded as `blocked`.
    readError   EXACTLY the `except serial.SerialException` branch of `SerialDevice._read`: the expression
                `self._ser.read(self._ser.in_waiting)` raised a `serial.SerialException` (or a subclass) → the handler
                returns `b""`; nothing was taken from the OS buffer.  That the handler has this shape is a translator
                fact (`Gen.SerialIntf`, theorem `source_shape`); what the op does is the definition of the model, not a
                consequence of anything.  Which failures of a real port arrive as a `SerialException` is NOT modelled:
                with pyserial 3.5 on posix only `Serial.read` raises one (`os.read`/`select` failing, "device reports
                readiness to read but returned no data"); `Serial.in_waiting` is a bare `ioctl(TIOCINQ)` and raises
                `OSError(EIO)` after the other end of a tty went away (adapter unplugged) and `TypeError` on a closed
                port — neither is a `SerialException`, neither is caught by `_read`, both leave `read()` as an
                exception (recorded on every run, not judged: evidence `coverage.pty.hangup_probe`).  The property
                sentence of C18 does not speak about errors; this op is outside it.
    dropAll     `drop_all`: read and discard until `Gen.SerialIntf.dropAllPolls` reads came back empty
  and for the other end: `peerSend d`, `peerRecv` (takes everything that has arrived).

  The FIFO abstraction stands for a UART line only when the port is opened 8-bit transparent and without
  flow control; `Line` (below) records how `SerialDevice.__init__` opens the port (`Line.real`, from the
  translator) and what a line so configured does to one byte (`Line.carry`) and to a pending write
  (`Line.mayHoldWrites`, `writeAccepted`).
  Core Lean only; executable.
-/
import NxsModel.Pad
import NxsModel.Gen.SerialIntf
namespace Nxs
namespace Pipe

/-- what the model takes from the source of the port interface -/
structure Port where
  /-- size handed to `self._ser.read` as a function of `in_waiting` -/
  readCount : Nat → Nat
  /-- number of empty reads that end `drop_all` -/
  dropPolls : Nat

/-- the port interface as the translator read it from the working tree -/
def Port.real : Port := ⟨Gen.SerialIntf.readCount, Gen.SerialIntf.dropAllPolls⟩

/-- a port whose reads neither wait for bytes that are not there nor leave the line undrained -/
structure Port.Lawful (pt : Port) : Prop where
  le : ∀ w, pt.readCount w ≤ w
  pos : ∀ w, 0 < w → 0 < pt.readCount w

/-! ### how the port is opened -/

/-- the line settings `serial.Serial(…)` is called with -/
structure Line where
  /-- `bytesize` -/
  dataBits : Nat
  /-- `parity`: "N" none, "E" even, "O" odd, "M" mark, "S" space -/
  parity : String
  /-- `stopbits` -/
  stopBits : Nat
  /-- software flow control (IXON | IXOFF) -/
  xonxoff : Bool
  /-- RTS/CTS hardware flow control (CRTSCTS) -/
  rtscts : Bool
  /-- DSR/DTR hardware flow control -/
  dsrdtr : Bool
  deriving DecidableEq, Repr

/-- what a `SerialDevice(port)` built with its default arguments asks of pyserial, as the translator read
    it from `SerialDevice.__init__` (settings the call does not pass are pyserial's defaults) -/
def Line.real : Line :=
  ⟨Gen.SerialIntf.openDataBits, Gen.SerialIntf.openParity, Gen.SerialIntf.openStopBits,
   Gen.SerialIntf.openXonXoff, Gen.SerialIntf.openRtsCts, Gen.SerialIntf.openDsrDtr⟩

/-- 8N1, no flow control of any kind -/
def Line.is8N1 (l : Line) : Bool :=
  l.dataBits == 8 && l.parity == "N" && l.stopBits == 1 && !l.xonxoff && !l.rtscts && !l.dsrdtr

/-- what the line does to one byte value `b < 256` handed to it: with software flow control the tty layer
    consumes XON (0x11) and XOFF (0x13) instead of delivering them; a character has only `dataBits` bits on
    the wire, the rest is cut off -/
def Line.carry (l : Line) (b : Nat) : Option Nat :=
  if l.xonxoff && (b == 0x11 || b == 0x13) then none else some (b % 2 ^ l.dataBits)

/-- can something other than the sender keep written bytes from moving (the other end dropping CTS / DSR,
    or sending XOFF)?  Then a write can sit in the OS buffer until the write timeout. -/
def Line.mayHoldWrites (l : Line) : Bool := l.xonxoff || l.rtscts || l.dsrdtr

/-- pyserial's `write(d)` with `write_timeout = t` (tenths of a second; `none` = wait for ever): how many of
    the `n` bytes are handed to the OS before it gives up, when the OS transmit buffer has `room` free bytes
    at the call and the line takes `rate` bytes per tenth of a second out of it
    (`t = some 0`: one non-blocking `os.write`, the rest is silently dropped; `t = some (k+1)`: everything
    that fits within the time, then `SerialTimeoutException` if something is left) -/
def writeAccepted (room rate : Nat) (t : Option Nat) (n : Nat) : Nat :=
  match t with
  | none => n
  | some t => min n (room + rate * t)

structure State where
  /-- `_write_padding` -/
  pad : Nat
  /-- other end → client, not yet visible to the client -/
  rxFlight : Bytes
  /-- other end → client, in the client's OS receive buffer (`in_waiting` = its length) -/
  rxWaiting : Bytes
  /-- client → other end, on the way -/
  txFlight : Bytes
  /-- client → other end, arrived, not yet taken by the other end -/
  txWaiting : Bytes
  deriving DecidableEq, Repr

def init (p : Nat) : State := ⟨p, [], [], [], []⟩

inductive Op where
  | write (d : Bytes)
  | setPad (p : Nat)
  | read
  /-- the `except serial.SerialException` branch of `_read` was taken (nothing else: an `OSError` / `TypeError` out of
      `in_waiting` — what a hang-up or a closed port produce with pyserial 3.5 — is not this op and is not modelled) -/
  | readError
  | dropAll
  | peerSend (d : Bytes)
  | osDeliver (k : Nat)
  | osDeliverTx (k : Nat)
  | peerRecv
  deriving DecidableEq, Repr

/-- what an op lets its caller observe -/
inductive Obs where
  | none
  /-- result of `read()`; `blocked` = pyserial had to wait for the port timeout -/
  | read (b : Bytes) (blocked : Bool)
  /-- bytes read and discarded by `drop_all`; `blocked` = some read of it waited for the timeout -/
  | drop (b : Bytes) (blocked : Bool)
  /-- bytes taken by the other end -/
  | peer (b : Bytes)
  deriving DecidableEq, Repr

/-- the loop of `drop_all` on a line where nothing new arrives meanwhile:
    `fuel`, empty reads still to see, bytes waiting, bytes dropped so far, blocked so far -/
def dropLoop (pt : Port) : Nat → Nat → Bytes → Bytes → Bool → Bytes × Bytes × Bool
  | 0, _, w, acc, bl => (acc, w, bl)
  | _ + 1, 0, w, acc, bl => (acc, w, bl)
  | fuel + 1, c + 1, w, acc, bl =>
    let n := pt.readCount w.length
    let r := w.take n
    let bl' := bl || decide (w.length < n)
    if r.isEmpty then dropLoop pt fuel c w acc bl'
    else dropLoop pt fuel (c + 1) (w.drop n) (acc ++ r) bl'

def step (pt : Port) (s : State) : Op → State × Obs
  | .write d => ({ s with txFlight := s.txFlight ++ Pad.dataAlign s.pad d }, .none)
  | .setPad p => ({ s with pad := p }, .none)
  | .read =>
    let n := pt.readCount s.rxWaiting.length
    ({ s with rxWaiting := s.rxWaiting.drop n }, .read (s.rxWaiting.take n) (decide (s.rxWaiting.length < n)))
  | .readError => (s, .read [] false)
  | .dropAll =>
    let (acc, w, bl) := dropLoop pt (s.rxWaiting.length + pt.dropPolls) pt.dropPolls s.rxWaiting [] false
    ({ s with rxWaiting := w }, .drop acc bl)
  | .peerSend d => ({ s with rxFlight := s.rxFlight ++ d }, .none)
  | .osDeliver k => ({ s with rxFlight := s.rxFlight.drop k, rxWaiting := s.rxWaiting ++ s.rxFlight.take k }, .none)
  | .osDeliverTx k => ({ s with txFlight := s.txFlight.drop k, txWaiting := s.txWaiting ++ s.txFlight.take k }, .none)
  | .peerRecv => ({ s with txWaiting := [] }, .peer s.txWaiting)

/-- a whole history: final state and the observation of every op, in order -/
def run (pt : Port) : State → List Op → State × List Obs
  | s, [] => (s, [])
  | s, op :: ops =>
    let (s1, o) := step pt s op
    let (s2, os) := run pt s1 ops
    (s2, o :: os)

/-! ### views of a history -/

/-- everything the client took from the port, in order (reads and the reads of `drop_all`) -/
def clientGot : List Obs → Bytes
  | [] => []
  | .read b _ :: r => b ++ clientGot r
  | .drop b _ :: r => b ++ clientGot r
  | _ :: r => clientGot r

/-- the results of the `read()` calls, one chunk per call -/
def readChunks : List Obs → List Bytes
  | [] => []
  | .read b _ :: r => b :: readChunks r
  | _ :: r => readChunks r

/-- everything the other end took, in order -/
def peerGot : List Obs → Bytes
  | [] => []
  | .peer b :: r => b ++ peerGot r
  | _ :: r => peerGot r

/-- did any read wait for the port timeout -/
def anyBlocked : List Obs → Bool
  | [] => false
  | .read _ bl :: r => bl || anyBlocked r
  | .drop _ bl :: r => bl || anyBlocked r
  | _ :: r => anyBlocked r

/-- everything the other end sent, in order -/
def peerSent : List Op → Bytes
  | [] => []
  | .peerSend d :: r => d ++ peerSent r
  | _ :: r => peerSent r

/-- the arguments of the client's writes, in order -/
def writes : List Op → List Bytes
  | [] => []
  | .write d :: r => d :: writes r
  | _ :: r => writes r

/-- what the client's writes must look like at the other end: each write aligned with the padding
    in force when it was issued -/
def alignedWrites : Nat → List Op → List Bytes
  | _, [] => []
  | p, .write d :: r => Pad.dataAlign p d :: alignedWrites p r
  | _, .setPad q :: r => alignedWrites q r
  | p, _ :: r => alignedWrites p r

end Pipe
end Nxs
