/-
  Record: read-only semantics of the two description dataclasses of dev.py
  (`DDeviceChannelData`, `DDeviceData`).  A record is its instance `__dict__`: an ordered finite
  map from attribute names to values, and nothing else; `__setattr__` consults the `_initdone`
  attribute and the generated allow-list.  Construction replays the dataclass-generated
  `__init__` and `__post_init__` as the sequences of assignments the translator extracted
  (`Gen.Record.*Order`).

  Attribute values: `Val` keeps apart exactly the kinds of Python object the harness assigns —
  `None`, `bool`, `int` (unbounded), `str`, and "any other object" (`other`: floats, bytes,
  containers, instances with hostile `__eq__`/`__hash__`/`__bool__`, …, identified by a tag; the
  harness compares those by identity).  The real `__setattr__` never inspects the value (no
  comparison, no hash, no truth test, no type test): `setattr` below does not either, which is the
  theorem `setattr_ignores_value`.  The only place where a value is *looked at* is the truth test
  `if self._initdone:` (`Val.truthy`).

  Attribute names are exact `str` objects (what an assignment statement `rec.f = v` and
  `setattr(rec, "f", v)` pass).  A `str` SUBCLASS with a hostile `__eq__` passed as the name to
  `setattr()` defeats `name not in ["div", "en"]`; like `rec.__dict__[…] = …`,
  `object.__setattr__` and `del rec._initdone` (there is no `__delattr__`: deleting the marker
  unseals the record) it is not "assigning to a field" and is outside C19.

  Histories: an application holds ONE record object over time and tries assignment after
  assignment (the library itself assigns `en`/`div` before and between); a rejected assignment
  raises and the application goes on with the same object.  `Step`/`runHistory` model that, plus
  `copy` steps (`copy.copy`, `copy.deepcopy`, a pickle round trip: the copy has the same class
  and an equal `__dict__`; the correspondence check compares that on the real objects).
-/
import NxsModel.Gen.Record
import NxsModel.Info
namespace Nxs
namespace Record

/-- a Python value, as far as the description records are concerned -/
inductive Val where
  | none
  | bool (b : Bool)
  | int (i : Int)
  | str (s : String)
  /-- any other object; `truthy` is the result of `bool(obj)`, `tag` its identity -/
  | other (truthy : Bool) (tag : Nat)
  deriving DecidableEq, Repr, Inhabited

/-- `bool(v)` -/
def Val.truthy : Val → Bool
  | .none => false
  | .bool b => b
  | .int i => i ≠ 0
  | .str s => s ≠ ""
  | .other t _ => t

/-- numerals and `Int`s are `int` objects (keeps `fun _ => 7` / an `Int` argument usable) -/
instance : OfNat Val n := ⟨.int n⟩
instance : Coe Int Val := ⟨.int⟩

/-- legacy rendering (booleans as 0/1, as the first C19 driver printed them); the C19 driver
    proper uses `Driver.valTok`, which keeps `True` and `1` apart -/
instance : ToString Val where
  toString
    | .none => "None"
    | .bool b => if b then "1" else "0"
    | .int i => toString i
    | .str s => s
    | .other _ t => s!"obj{t}"

/-- the instance `__dict__` -/
abbrev Dict := List (String × Val)

def Dict.get? (d : Dict) (k : String) : Option Val := (d.find? (·.1 = k)).map (·.2)

def Dict.set (d : Dict) (k : String) (v : Val) : Dict :=
  if d.any (·.1 = k) then d.map (fun e => if e.1 = k then (k, v) else e) else d ++ [(k, v)]

/-- the attribute names, in `__dict__` order -/
def Dict.keys (d : Dict) : List String := d.map (·.1)

/-- `self._initdone` under `if`: instance attribute, else the class default `False` -/
def initDone (d : Dict) : Bool := ((d.get? "_initdone").getD (.bool false)).truthy

/-- `__setattr__(name, value)` with allow-list `allow` -/
def setattr (allow : List String) (d : Dict) (name : String) (v : Val) : Except Err Dict :=
  if initDone d && !(allow.contains name) then .error .typeError
  else .ok (d.set name v)

/-- run a sequence of assignments `self.<name> = <value>` (inside `__init__`/`__post_init__`:
    the first one that raises ends construction) -/
def assignAll (allow : List String) : Dict → List (String × Val) → Except Err Dict
  | d, [] => .ok d
  | d, (k, v) :: r => (setattr allow d k v).bind fun d' => assignAll allow d' r

/-- value assigned to each attribute by `DDeviceChannelData.__post_init__` -/
def chanDerived (ty : Nat) (name : String) : Val :=
  if name = "dtype" then .int (Info.dtypeOf ty)
  else if name = "critical" then .bool (Info.criticalOf ty)
  else if name = "type_res" then .int (Info.typeResOf ty)
  else if name = "is_valid" then .bool (Info.isValidOf ty)
  else if name = "is_numerical" then .bool (Info.isNumericalOf ty)
  else if name = "_initdone" then .bool true
  else .none

/-- `DDeviceChannelData(chan, _type, vdim, name, en, div, mlen)`; `args` gives the value of each
    init field, `ty` the type byte (an `int`); `_initdone` default False -/
def mkChan (args : String → Val) (ty : Nat) : Except Err Dict :=
  (assignAll Gen.Record.chanAllow []
      (Gen.Record.chanInitOrder.map fun k =>
        (k, if k = "_initdone" then .bool false else if k = "_type" then .int (ty : Int) else args k))).bind fun d =>
    assignAll Gen.Record.chanAllow d (Gen.Record.chanPostOrder.map fun k => (k, chanDerived ty k))

def devDerived (flags : Nat) (name : String) : Val :=
  if name = "div_supported" then .bool (Info.divSupported flags)
  else if name = "ack_supported" then .bool (Info.ackSupported flags)
  else if name = "_initdone" then .bool true
  else .none

/-- `DDeviceData(chmax, flags, rxpadding)` -/
def mkDev (args : String → Val) (flags : Nat) : Except Err Dict :=
  (assignAll Gen.Record.devAllow []
      (Gen.Record.devInitOrder.map fun k =>
        (k, if k = "_initdone" then .bool false else if k = "flags" then .int (flags : Int) else args k))).bind fun d =>
    assignAll Gen.Record.devAllow d (Gen.Record.devPostOrder.map fun k => (k, devDerived flags k))

/-! ### histories on one record object -/

/-- one thing done with a record after construction -/
inductive Step where
  /-- `rec.<name> = <v>` (by the application or, for en/div, by the library) -/
  | assign (name : String) (v : Val)
  /-- go on with `copy.copy(rec)` / `copy.deepcopy(rec)` / `pickle.loads(pickle.dumps(rec))` -/
  | copy
  deriving DecidableEq, Repr

/-- the record after one step, and whether the step raised (`false` = TypeError); a rejected
    assignment leaves the object as it was -/
def Step.run (allow : List String) (d : Dict) : Step → Dict × Bool
  | .assign k v =>
    match setattr allow d k v with
    | .ok d' => (d', true)
    | .error _ => (d, false)
  | .copy => (d, true)

/-- the record after a whole history -/
def runHistory (allow : List String) (d : Dict) (h : List Step) : Dict :=
  h.foldl (fun d s => (s.run allow d).1) d

/-- per step: did it go through, and the record afterwards -/
def runTrace (allow : List String) : Dict → List Step → List (Bool × Dict)
  | _, [] => []
  | d, s :: r => let x := s.run allow d; (x.2, x.1) :: runTrace allow x.1 r

/-- the last value a history assigned to `k`, if any -/
def lastAssigned (k : String) : List Step → Option Val
  | [] => .none
  | .assign k' v :: r => (lastAssigned k r).or (if k' = k then some v else .none)
  | .copy :: r => lastAssigned k r

end Record
end Nxs
