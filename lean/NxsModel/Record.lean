/-
  Record: read-only semantics of the two description dataclasses of dev.py
  (`DDeviceChannelData`, `DDeviceData`).  A record is a finite map from attribute names to
  values plus nothing else; `__setattr__` consults the `_initdone` attribute and the generated
  allow-list.  Construction replays the dataclass-generated `__init__` and `__post_init__`
  as the sequences of assignments the translator extracted (`Gen.Record.*Order`).
  Attribute values are abstracted to `Int` (booleans 0/1; the harness maps other values).
-/
import NxsModel.Gen.Record
import NxsModel.Info
namespace Nxs
namespace Record

/-- the instance `__dict__` -/
abbrev Dict := List (String × Int)

def Dict.get? (d : Dict) (k : String) : Option Int := (d.find? (·.1 = k)).map (·.2)

def Dict.set (d : Dict) (k : String) (v : Int) : Dict :=
  if d.any (·.1 = k) then d.map (fun e => if e.1 = k then (k, v) else e) else d ++ [(k, v)]

/-- `self._initdone` : instance attribute, else the class default `False` -/
def initDone (d : Dict) : Bool := (d.get? "_initdone").getD 0 ≠ 0

/-- `__setattr__(name, value)` with allow-list `allow` -/
def setattr (allow : List String) (d : Dict) (name : String) (v : Int) : Except Err Dict :=
  if initDone d && !(allow.contains name) then .error .typeError
  else .ok (d.set name v)

/-- run a sequence of assignments `self.<name> = <value>` -/
def assignAll (allow : List String) : Dict → List (String × Int) → Except Err Dict
  | d, [] => .ok d
  | d, (k, v) :: r => (setattr allow d k v).bind fun d' => assignAll allow d' r

def b2i (b : Bool) : Int := if b then 1 else 0

/-- value assigned to each attribute by `DDeviceChannelData.__post_init__` -/
def chanDerived (ty : Nat) (name : String) : Int :=
  if name = "dtype" then Info.dtypeOf ty
  else if name = "critical" then b2i (Info.criticalOf ty)
  else if name = "type_res" then Info.typeResOf ty
  else if name = "is_valid" then b2i (Info.isValidOf ty)
  else if name = "is_numerical" then b2i (Info.isNumericalOf ty)
  else if name = "_initdone" then 1
  else 0

/-- `DDeviceChannelData(chan, _type, vdim, name, en, div, mlen)`; `args` gives the value of each
    init field (name abstracted to an integer tag), `_initdone` default False -/
def mkChan (args : String → Int) (ty : Nat) : Except Err Dict :=
  (assignAll Gen.Record.chanAllow []
      (Gen.Record.chanInitOrder.map fun k =>
        (k, if k = "_initdone" then 0 else if k = "_type" then (ty : Int) else args k))).bind fun d =>
    assignAll Gen.Record.chanAllow d (Gen.Record.chanPostOrder.map fun k => (k, chanDerived ty k))

def devDerived (flags : Nat) (name : String) : Int :=
  if name = "div_supported" then b2i (Info.divSupported flags)
  else if name = "ack_supported" then b2i (Info.ackSupported flags)
  else if name = "_initdone" then 1
  else 0

def mkDev (args : String → Int) (flags : Nat) : Except Err Dict :=
  (assignAll Gen.Record.devAllow []
      (Gen.Record.devInitOrder.map fun k =>
        (k, if k = "_initdone" then 0 else if k = "flags" then (flags : Int) else args k))).bind fun d =>
    assignAll Gen.Record.devAllow d (Gen.Record.devPostOrder.map fun k => (k, devDerived flags k))

end Record
end Nxs
