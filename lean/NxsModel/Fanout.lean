/-
  Fanout: model of the subscriber fan-out of `NxscopeHandler` (nxscope.py): `_stream_thread`
  body (one decoded stream frame → group the samples per enabled channel → put each non-empty
  group on every queue subscribed to that channel, under the queue lock), `stream_sub`,
  `stream_unsub`, and the enable vector the client reports (`ch_is_enabled`).
  A sample is identified by a number (its position in the device's output); the decoding of
  sample contents is C04's business.
-/
import NxsModel.Bytes
namespace Nxs
namespace Fanout

structure Smp where
  chan : Nat
  val : Nat
  deriving DecidableEq, Repr

structure St where
  enabled : List Bool                      -- `ch_is_enabled(c)`; its length is chmax
  subs : List (List Nat)                   -- `_sub_q`: per channel the subscribed queue ids, in order
  queues : List (Nat × List (List Nat))    -- queue id ↦ the groups put on it, oldest first
  nextQ : Nat := 0
  ovf : Nat := 0                           -- `_ovf_cntr`
  deriving DecidableEq, Repr

def St.init (n : Nat) : St := { enabled := List.replicate n false, subs := List.replicate n [], queues := [] }

inductive Op where
  | frame (flags : Nat) (ss : List Smp)
  | sub (ch : Nat)
  | unsub (q : Nat)
  | setEnabled (v : List Bool)
  deriving DecidableEq, Repr

/-- `que.put(group)` -/
def putOn (queues : List (Nat × List (List Nat))) (q : Nat) (g : List Nat) : List (Nat × List (List Nat)) :=
  queues.map fun e => if e.1 = q then (e.1, e.2 ++ [g]) else e

/-- the samples of channel `c` that pass the enabled check, in frame order -/
def group (enabled : List Bool) (ss : List Smp) (c : Nat) : List Nat :=
  (ss.filter fun s => s.chan = c ∧ enabled.getD s.chan false).map (·.val)

/-- fan-out of the groups of channels `c, c+1, …` (`k` of them left) -/
def fanout (enabled : List Bool) (subs : List (List Nat)) (ss : List Smp) :
    Nat → Nat → List (Nat × List (List Nat)) → List (Nat × List (List Nat))
  | _, 0, qs => qs
  | c, k + 1, qs =>
    let g := group enabled ss c
    let qs' := if g.isEmpty then qs else (subs.getD c []).foldl (fun acc q => putOn acc q g) qs
    fanout enabled subs ss (c + 1) k qs'

def step (s : St) : Op → Except Err St
  | .frame flags ss =>
    if ss.any (fun x => x.chan ≥ s.enabled.length) then .error .assertion   -- decoder: unknown channel
    else
      .ok { s with ovf := if flags % 2 = 1 then s.ovf + 1 else s.ovf,
                   queues := fanout s.enabled s.subs ss 0 s.enabled.length s.queues }
  | .sub ch =>
    if ch < s.subs.length then
      .ok { s with subs := s.subs.set ch (s.subs.getD ch [] ++ [s.nextQ]),
                   queues := s.queues ++ [(s.nextQ, [])], nextQ := s.nextQ + 1 }
    else .error .indexError
  | .unsub q => .ok { s with subs := s.subs.map fun l => l.erase q }
  | .setEnabled v => if v.length = s.enabled.length then .ok { s with enabled := v } else .error .valueError

/-- run a history; an op that raises leaves the state unchanged (the call failed) -/
def run (s : St) : List Op → St
  | [] => s
  | op :: r => match step s op with
    | .ok s' => run s' r
    | .error _ => run s r

/-- everything queue `q` has received, flattened -/
def received (s : St) (q : Nat) : List Nat :=
  match s.queues.find? (·.1 = q) with
  | some e => e.2.flatten
  | none => []

end Fanout
end Nxs
