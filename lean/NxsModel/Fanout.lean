/-
  Fanout: model of the subscriber fan-out of `NxscopeHandler` (nxscope.py): `_stream_thread`
  body (one decoded stream frame → group the samples per enabled channel → put each non-empty
  group on every queue subscribed to that channel, under the queue lock), `stream_sub`,
  `stream_unsub`, the enable vector the client reports (`ch_is_enabled`), the DEATH of the stream
  thread (an exception inside the thread's target ends the thread for good: `thread.py::_thread_loop`
  does not catch), and — in `Sys` below — the stream-frame queue between the receive thread and the
  stream thread (`CommHandler._q_stream`) with `stream_start` / `stream_stop`.
  A sample is identified by a number (its position in the device's output); the decoding of
  sample contents is C04's business (`tagged` / `arrivals` below number the decoded samples).

  WHAT AN OP LIST MEANS (linearisation).  The code has three threads: the receive thread (puts
  stream frames on `_q_stream`), the stream thread (takes one frame, decodes it, tests
  `ch_is_enabled` once per sample under the CHANNELS lock, then — under the QUEUE lock — puts the
  groups on the subscriber queues) and the application thread(s) (`stream_sub` / `stream_unsub`
  under the queue lock; `channels_write` assigns the enable vector under the channels lock).  An
  execution is described by the op list obtained by ordering
    * every `sub` / `unsub` at the moment it holds the queue lock,
    * every frame at the moment the stream thread holds the queue lock for its fan-out (a frame
      that delivers nothing or that kills the thread: at the moment it is taken from `_q_stream`),
    * every `setEnabled` at the moment `en_now` is assigned under the channels lock.
  Both locks are mutual-exclusion locks (lock table: `Gen.Locks`, property C12), so these moments are
  totally ordered and the sub/unsub/fan-out critical sections do not overlap: with respect to
  subscriptions a frame IS atomic.  With respect to the enable vector it is atomic only if no
  `setEnabled` falls between the enabled-tests of two samples of the same frame (the tests happen
  before, and outside, the queue lock).  If one does — after the `k`-th sample — the code behaves as
  the op list in which the frame is split there: `frame fl (ss.take k), setEnabled v, frame 0 (ss.drop k)`
  (with every sub/unsub that happened meanwhile moved in front of the first part: a subscription
  change commutes with `setEnabled` and with a frame part that has not yet fanned out), up to the
  grouping: the code puts ONE group per channel for the whole frame, the split history two.
  `C08.frame_split` proves that splitting a frame changes no queue's flattened content, so every
  theorem about flattened queue contents (`received`) transfers to such executions.
  Pre-emption inside a critical section and the internals of `queue.Queue` / `Lock` are outside the
  model (CPython).
  `channels_write` holds the channels lock from before the ENABLE request is written until `en_now` is
  assigned (request, ACK wait and update are one critical section): an enabled-test of the stream
  thread that starts after the device has applied the request therefore answers with the NEW vector,
  i.e. the `setEnabled` is ordered before every frame the device emitted after applying it (K: the
  `enable-race` sessions of harness/props/C08.py).
  Outside the model: queue items are values here, the code puts the SAME list object on every
  subscriber queue of a channel (a consumer that mutates it is seen by the others); `connect()`
  rebuilds `_sub_q`, so `St.init` (no queues) is the state after EVERY connect and a queue subscribed
  on an earlier connection receives nothing (see Props/C08.lean, "behaviours outside the model").

  "SINCE THE SUBSCRIPTION" is therefore modelled as "PROCESSED since the subscription": a frame that
  was received before `stream_sub` returned but is still waiting in `_q_stream` (or is being decoded)
  is delivered to the new queue; `stream_start` does not drain `_q_stream`, so frames left there by a
  `stream_stop` are delivered after the next `stream_start` (`Sys` below models that backlog).
-/
import NxsModel.Bytes
import NxsModel.Route
import NxsModel.Stream
namespace Nxs
namespace Fanout

structure Smp where
  chan : Nat
  val : Nat
  deriving DecidableEq, Repr

structure St where
  enabled : List Bool                      -- `ch_is_enabled(c)`; its length is chmax
  subs : List (List Nat)                   -- `_sub_q`: per channel the subscribed queue ids, in order
  queues : List (Nat × List (List Nat))    -- queue id ↦ the groups put on it, oldest first
  nextQ : Nat := 0
  ovf : Nat := 0                           -- `_ovf_cntr`
  dead : Bool := false                     -- the stream thread's target raised: the thread has ended
  deriving DecidableEq, Repr

def St.init (n : Nat) : St := { enabled := List.replicate n false, subs := List.replicate n [], queues := [] }

/-- the state after `connect()` to a device that reports the enable vector `en` (channels may be
    enabled already: left enabled by a previous client, or by the firmware) -/
def St.initEn (en : List Bool) : St := { enabled := en, subs := List.replicate en.length [], queues := [] }

inductive Op where
  /-- the stream thread processes a stream frame that decodes to these flags and samples -/
  | frame (flags : Nat) (ss : List Smp)
  /-- the stream thread takes a stream frame on which the decoder raises (truncated sample,
      unknown sample type, …; an unknown channel id is `frame` with `chan ≥ chmax`) -/
  | badFrame
  | sub (ch : Nat)
  /-- `stream_sub(-(k+1))`: Python's negative index, i.e. channel `chmax - 1 - k` -/
  | subNeg (k : Nat)
  | unsub (q : Nat)
  | setEnabled (v : List Bool)
  /-- `stream_stop(); stream_start()`: a new stream thread, `_reset_stats()` -/
  | restart
  deriving DecidableEq, Repr

/-- `que.put(group)` -/
def putOn (queues : List (Nat × List (List Nat))) (q : Nat) (g : List Nat) : List (Nat × List (List Nat)) :=
  queues.map fun e => if e.1 = q then (e.1, e.2 ++ [g]) else e

/-- the samples of channel `c` that pass the enabled check, in frame order -/
def group (enabled : List Bool) (ss : List Smp) (c : Nat) : List Nat :=
  (ss.filter fun s => s.chan = c ∧ enabled.getD s.chan false).map (·.val)

/-- fan-out of the groups of channels `c, c+1, …` (`k` of them left) -/
def fanout (enabled : List Bool) (subs : List (List Nat)) (ss : List Smp) :
    Nat → Nat → List (Nat × List (List Nat)) → List (Nat × List (List Nat))
  | _, 0, qs => qs
  | c, k + 1, qs =>
    let g := group enabled ss c
    let qs' := if g.isEmpty then qs else (subs.getD c []).foldl (fun acc q => putOn acc q g) qs
    fanout enabled subs ss (c + 1) k qs'

/-- `self._sub_q[ch].append(Queue())` for a valid list index `ch` -/
def subAt (s : St) (ch : Nat) : St :=
  { s with subs := s.subs.set ch (s.subs.getD ch [] ++ [s.nextQ]),
           queues := s.queues ++ [(s.nextQ, [])], nextQ := s.nextQ + 1 }

def step (s : St) : Op → Except Err St
  | .frame flags ss =>
    if s.dead then .ok s                                               -- nobody processes frames any more
    else if ss.any (fun x => x.chan ≥ s.enabled.length) then
      .ok { s with dead := true }                                      -- decoder: `assert chan` — the thread ends
    else
      .ok { s with ovf := if flags % 2 = 1 then s.ovf + 1 else s.ovf,
                   queues := fanout s.enabled s.subs ss 0 s.enabled.length s.queues }
  | .badFrame => .ok { s with dead := true }
  | .sub ch => if ch < s.subs.length then .ok (subAt s ch) else .error .indexError
  | .subNeg k => if k < s.subs.length then .ok (subAt s (s.subs.length - 1 - k)) else .error .indexError
  | .unsub q => .ok { s with subs := s.subs.map fun l => l.erase q }
  | .setEnabled v => if v.length = s.enabled.length then .ok { s with enabled := v } else .error .valueError
  | .restart => .ok { s with dead := false, ovf := 0 }

/-- one op of a history; an application call that raises leaves the state unchanged (the call failed;
    a frame never "fails": it is processed, or it kills the stream thread, or — thread dead — it is not
    processed at all) -/
def apply (s : St) (op : Op) : St :=
  match step s op with
  | .ok s' => s'
  | .error _ => s

/-- run a history -/
def run (s : St) : List Op → St
  | [] => s
  | op :: r => match step s op with
    | .ok s' => run s' r
    | .error _ => run s r

/-- everything queue `q` has received, flattened -/
def received (s : St) (q : Nat) : List Nat :=
  match s.queues.find? (·.1 = q) with
  | some e => e.2.flatten
  | none => []

/-- a frame the decoder accepts for a device with `n` channels -/
def Op.wfFrame (n : Nat) : Op → Bool
  | .frame _ ss => ss.all (fun x => x.chan < n)
  | _ => false

/-- a frame the decoder rejects (it ends the stream thread): an unknown channel id, or a payload
    it cannot unpack -/
def Op.kills (n : Nat) : Op → Bool
  | .frame _ ss => ss.any (fun x => x.chan ≥ n)
  | .badFrame => true
  | _ => false

/-- the samples of channel `c` a frame carries -/
def Op.samplesOf (c : Nat) : Op → List Nat
  | .frame _ ss => (ss.filter (·.chan = c)).map (·.val)
  | _ => []

/-! ### numbering the decoded samples of the stream frames the receive thread routes -/

/-- identification of samples: the `j`-th sample gets `val = k + j` -/
def tagged (k : Nat) : List Stream.Sample → List Smp
  | [] => []
  | s :: r => ⟨s.chan, k⟩ :: tagged (k + 1) r

/-- what the stream thread makes of the frames on `_q_stream`, in order: `stream_data()` decodes each
    (`Stream.frameStreamDecode`); a decode error is a raise inside the thread (`badFrame`), a frame
    without payload yields `None` (nothing happens: `frame 0 []`), everything else a `frame` whose
    samples are numbered consecutively across frames starting at `k` -/
def opsOfFrames (layout : List Stream.Chan) (user : List Stream.UserType) (k : Nat) :
    List Serial.Frame → List Op
  | [] => []
  | fr :: r =>
    match Stream.frameStreamDecode layout user fr with
    | .ok (some (fl, ss)) => .frame fl (tagged k ss) :: opsOfFrames layout user (k + ss.length) r
    | .ok none => .frame 0 [] :: opsOfFrames layout user k r
    | .error _ => .badFrame :: opsOfFrames layout user k r

/-- all samples of the decodable frames, in order (`tagged` position ↦ sample) -/
def samplesOfFrames (layout : List Stream.Chan) (user : List Stream.UserType) :
    List Serial.Frame → List Stream.Sample
  | [] => []
  | fr :: r =>
    match Stream.frameStreamDecode layout user fr with
    | .ok (some (_, ss)) => ss ++ samplesOfFrames layout user r
    | _ => samplesOfFrames layout user r

/-- the ops the stream thread will see for the frames `frs` the reassembly delivered to the receive
    thread (in this order): `Route.queues` puts the STREAM frames, in arrival order, on `_q_stream` -/
def arrivals (layout : List Stream.Chan) (user : List Stream.UserType) (hasDev : Bool)
    (frs : List Serial.Frame) : List Op :=
  opsOfFrames layout user 0 (Route.queues hasDev frs).2

/-! ### the stream-frame queue and the stream thread loop -/

/-- client state as far as delivery is concerned -/
structure Sys where
  fan : St
  q : List Op := []            -- `_q_stream`, oldest first (each element stands for a frame: `frame` / `badFrame`)
  started : Bool := false      -- `_stream_started`: `stream_start()` has created the stream thread
  deriving DecidableEq, Repr

/-- after `connect()` to a device reporting the enable vector `en`: no stream thread yet, `_q_stream`
    drained by the connect -/
def Sys.init (en : List Bool) : Sys := { fan := St.initEn en }

inductive Ev where
  /-- the receive thread puts a stream frame on `_q_stream` -/
  | arrive (f : Op)
  /-- one iteration of the stream thread's loop (`_stream_thread()` is called once; with an empty
      `_q_stream` the call times out after 1 s and does nothing) -/
  | iter
  | sub (ch : Nat)
  | subNeg (k : Nat)
  | unsub (q : Nat)
  | setEnabled (v : List Bool)
  /-- `stream_start()` -/
  | start
  /-- `stream_stop()` (returns after the stream thread has been joined) -/
  | stop
  deriving DecidableEq, Repr

/-- the thread exists and has not died: the next loop iteration calls `_stream_thread()` -/
def Sys.alive (s : Sys) : Bool := s.started && !s.fan.dead

/-- the fan-out op an event performs in state `s` (`none`: it performs none) -/
def evOp (s : Sys) : Ev → Option Op
  | .arrive _ => none
  | .iter => if s.alive then s.q.head? else none
  | .sub ch => some (.sub ch)
  | .subNeg k => some (.subNeg k)
  | .unsub q => some (.unsub q)
  | .setEnabled v => some (.setEnabled v)
  | .start => if s.started then none else some .restart
  | .stop => none

def sysStep (s : Sys) (e : Ev) : Sys :=
  let fan' := match evOp s e with
    | some op => apply s.fan op
    | none => s.fan
  match e with
  | .arrive f => { s with q := s.q ++ [f] }
  | .iter => if s.alive then { s with q := s.q.tail, fan := fan' } else s
  | .start => { s with fan := fan', started := true }
  | .stop => { s with started := false }
  | _ => { s with fan := fan' }

def sysRun (s : Sys) : List Ev → Sys
  | [] => s
  | e :: r => sysRun (sysStep s e) r

/-- the fan-out ops a history performs, in order -/
def sysOps (s : Sys) : List Ev → List Op
  | [] => []
  | e :: r => (evOp s e).toList ++ sysOps (sysStep s e) r

/-- the frame the stream thread takes from `_q_stream` in this event, if any -/
def consumedBy (s : Sys) : Ev → List Op
  | .iter => (evOp s .iter).toList
  | _ => []

/-- the frame the receive thread puts on `_q_stream` in this event, if any -/
def arrivedBy : Ev → List Op
  | .arrive f => [f]
  | _ => []

/-- the frames the stream thread takes from `_q_stream` during a history, in order -/
def sysConsumed (s : Sys) : List Ev → List Op
  | [] => []
  | e :: r => consumedBy s e ++ sysConsumed (sysStep s e) r

/-- the frames the receive thread puts on `_q_stream` during a history, in order -/
def arrived : List Ev → List Op
  | [] => []
  | e :: r => arrivedBy e ++ arrived r

end Fanout
end Nxs
