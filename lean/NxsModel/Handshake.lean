/-
  Handshake: model of `CommHandler._start / _devinfo_get / _drop_all_frames / _stop` (comm.py)
  against an adversarial link, of the calls built on it (`CommHandler.connect / disconnect /
  stream_start / stream_stop`, `NxscopeHandler.connect / stream_start / stream_stop / disconnect`)
  and of the receive thread (`ThreadCommon._thread_loop` around `CommHandler._recv_thread`).

  The link is a script of responses, one per request the client WAITS an answer for (exhausted
  script: a default response); blocking calls are charged in virtual time (tenths of a second)
  with the timeouts and retry counters of `Gen.Comm`.

  What the link may do per awaited request (`Resp`): answer correctly (info requests: the
  description; set / start / stop requests: ACK 0), stay silent, answer with a well-formed frame
  of another kind, answer with a frame of the right kind whose payload is too short to unpack
  (CPython raises `struct.error`), answer with an ACK frame carrying a non-zero code (NACK),
  answer with bytes without a start byte (`noise`: dropped, like silence), answer with a well-formed
  STREAM frame (`wrongStream`: the receive thread puts it on the stream queue, so the call waiting on
  the response queue times out exactly as on a silent link; the draining loops take queued frames
  without waiting), answer a channel-info request with a name that is not UTF-8 (`badName`:
  `UnicodeDecodeError` out of the decoder), or answer with
  `garbage`: bytes that contain a decodable header announcing a long frame (the reference
  device's blob `13 37 55 01 ff 00 55`: header `55 01 ff 00` = 65281 bytes, id 0) — the receive
  path then takes everything the device sends afterwards for the body of that frame, i.e. the
  link is dead for the rest of the session: the device still does what the script says, but its
  answers are `swallowed` (valid as long as fewer than 65281 bytes follow in the session); the
  next `_start` empties the reassembly buffer (F21) and lifts it (`unswallow`).
  Unsolicited frames are not part of this model (the draining loops only count empty polls; see
  DESIGN.md section 5/C10): sustained noise is covered by the read bound of the receive-thread
  body (`Props/C10.lean`), not by the scripts.
-/
import NxsModel.Gen.Comm
import NxsModel.Info
import NxsModel.Reasm
import NxsModel.Worker
namespace Nxs
namespace Handshake
open Gen.Comm

inductive Resp where
  | ok | silent | wrong | short | garbage | nack | noise
  | wrongStream               -- a well-formed STREAM frame: it goes to the stream queue, the waiting call sees nothing
  | badName                   -- channel-info whose name field is not UTF-8 (any other request: answered correctly)
  | swallowed (r : Resp)      -- the device does `r`, but nothing gets through the poisoned reassembly buffer
  deriving DecidableEq, Repr

/-- what the device really does -/
def Resp.unswallow : Resp → Resp
  | .swallowed r => r.unswallow
  | r => r

/-- the device description the link answers with when it answers correctly -/
structure DevDesc where
  chmax : Nat
  flags : Nat
  rxpadding : Nat
  deriving DecidableEq, Repr

inductive Req where
  | stop | cmninfo | chinfo (c : Nat) | padding (n : Nat)
  deriving DecidableEq, Repr

inductive Outcome where
  | connected (chmax flags rxp : Nat)
  | raised (e : Err)
  deriving DecidableEq, Repr

structure St where
  time : Nat := 0
  sent : List Req := []
  script : List Resp
  dflt : Resp
  padding : Nat := 0          -- current write padding of the interface
  deriving Repr

def St.next (s : St) : Resp × St :=
  match s.script with
  | [] => (s.dflt, s)
  | r :: rest => (r, { s with script := rest })

/-- the reassembly buffer now starts with a header announcing a frame that never completes:
    whatever the device does from now on is swallowed -/
def St.poison (s : St) (time : Nat) : St :=
  { s with time := time, script := s.script.map .swallowed, dflt := .swallowed s.dflt }

/-- `_prev_read = b""` at `_start` (F21): the link is as the device drives it again -/
def St.unpoison (s : St) : St :=
  { s with script := s.script.map Resp.unswallow, dflt := s.dflt.unswallow }

/-- `_drop_all_frames` on empty queues: 4 + 4 empty polls -/
def dropAll (s : St) : St :=
  { s with time := s.time + drainPolls * drainPollTime + drainStreamPolls * drainStreamPollTime }

/-- result of one info request: a usable answer, nothing usable (→ `None`), or an exception -/
inductive Got where
  | answer | nothing | raise (e : Err)
  deriving DecidableEq, Repr

/-- send a request and wait for its response (`_nxslib_cmninfo` / `_nxslib_chinfo`).  During the
    handshake the client has no device yet, so an ACK frame (also a NACK) is dropped by the receive
    thread: nothing arrives, the wait times out. -/
def request (s : St) (r : Req) (timeout : Nat) : Got × St :=
  let s := { s with sent := s.sent ++ [r] }
  let (resp, s) := s.next
  match resp with
  | .ok => (.answer, s)
  | .silent => (.nothing, { s with time := s.time + timeout })
  | .wrong => (.nothing, s)
  | .wrongStream => (.nothing, { s with time := s.time + timeout })
  | .badName =>
    match r with
    | .chinfo _ => (.raise .unicodeError, s)     -- `_str.decode()` in `frame_chinfo_decode`
    | _ => (.answer, s)
  | .short => (.raise .structError, s)
  | .nack => (.nothing, { s with time := s.time + timeout })
  | .noise => (.nothing, { s with time := s.time + timeout })
  | .swallowed _ => (.nothing, { s with time := s.time + timeout })
  | .garbage => (.nothing, s.poison (s.time + timeout))

/-- the `while chan is None` loop for channel `i` with `k` attempts left -/
def chinfoLoop (s : St) (i : Nat) : Nat → Got × St
  | 0 => (.nothing, s)
  | k + 1 =>
    match request s (.chinfo i) chinfoTimeout with
    | (.answer, s') => (.answer, s')
    | (.raise e, s') => (.raise e, s')
    | (.nothing, s') => chinfoLoop s' i k

/-- channels `i, i+1, …` (`n` of them left) -/
def chinfoAll (s : St) : Nat → Nat → Got × St
  | _, 0 => (.answer, s)
  | i, n + 1 =>
    match chinfoLoop s i chinfoAttempts with
    | (.answer, s') => chinfoAll s' (i + 1) n
    | other => other

/-- `_devinfo_get` -/
def devinfoGet (dev : DevDesc) (s : St) : Got × St :=
  match request s .cmninfo cmninfoTimeout with
  | (.answer, s1) =>
    let s2 :=
      if dev.rxpadding > 0 ∧ s1.padding ≠ dev.rxpadding then
        { s1 with padding := dev.rxpadding, sent := s1.sent ++ [.padding dev.rxpadding] }
      else s1
    chinfoAll (dropAll s2) 0 dev.chmax
  | other => other

/-- the bounded `while self._dev is None` loop of `_start` with `k` attempts left -/
def connectLoop (dev : DevDesc) (s : St) : Nat → Outcome × St
  | 0 => (.raised .timeout, s)
  | k + 1 =>
    match devinfoGet dev s with
    | (.answer, s') => (.connected dev.chmax dev.flags dev.rxpadding, s')
    | (.raise e, s') => (.raised e, s')
    | (.nothing, s') => connectLoop dev s' k

structure Result where
  outcome : Outcome
  time : Nat
  sent : List Req
  recvThreadRunning : Bool      -- after connect returned / raised
  intfRunning : Bool
  deriving DecidableEq, Repr

/-- `connect()` from the disconnected state: start interface, stop request, drain, start the
    receive thread, handshake; on failure stop thread and interface (if the code does) and re-raise -/
def connect (dev : DevDesc) (script : List Resp) (dflt : Resp) : Result :=
  let s0 : St := { script := script, dflt := dflt, sent := [.stop] }
  let s1 := dropAll s0
  match connectLoop dev s1 connectAttempts with
  | (.connected a b c, s) => ⟨.connected a b c, s.time, s.sent, true, true⟩
  | (.raised e, s) => ⟨.raised e, s.time, s.sent, !startCleansUp, !startCleansUp⟩

/-- `disconnect()` of the low-level handler after that connect: `_stop` acts only when started -/
def disconnectAfter (r : Result) : Result :=
  match r.outcome with
  | .connected .. =>
    { r with recvThreadRunning := false, intfRunning := false,
             time := r.time + drainPolls * drainPollTime + drainStreamPolls * drainStreamPollTime }
  | .raised _ => r

/-- the explicit time bound: first drain + attempts × (cmninfo wait + drain + channels × tries × chinfo wait) -/
def bound (chmax : Nat) : Nat :=
  let drain := drainPolls * drainPollTime + drainStreamPolls * drainStreamPollTime
  drain + connectAttempts * (cmninfoTimeout + drain + chmax * chinfoAttempts * chinfoTimeout)

/-! ### sessions: several calls on one handler object, faults at any request

`Sess` is the state of one `CommHandler` (fields `started … intf`) and, for the high-level
calls, of the `NxscopeHandler` that owns it (`connected … streamThr`).  `_dev is not None` and
`_started` coincide between calls (both set at the end of a successful `_start`, both cleared
by `_stop`), so one flag stands for both. -/

/-- the stream thread's body is `stream_data()`, i.e. `_get_stream_frame()` with its default
    timeout of 1.0 s (`comm.py`; pinned by `Gen.PinsC10.comm_CommHandler__get_stream_frame`, not
    yet extracted by the translator): `thread_stop()` waits at most that long for it -/
def streamPollTimeout : Nat := Gen.Comm.streamDataTimeout

/-- what the client wrote, in order: the handshake's requests and the set / start requests (stop is `Req.stop`) -/
inductive Sent where
  | info (r : Req) | start | enable | div
  deriving DecidableEq, Repr

structure Sess where
  st : St                     -- `st.sent`: the requests of the last `_start` only; the whole log is `log`
  dev : DevDesc
  log : List Sent := []
  started : Bool := false
  recvThr : Bool := false
  intf : Bool := false
  connected : Bool := false
  streamStarted : Bool := false
  streamThr : Bool := false
  deriving Repr

def Sess.fresh (dev : DevDesc) (script : List Resp) (dflt : Resp) : Sess :=
  { st := { script := script, dflt := dflt }, dev := dev }

/-- number of library threads alive -/
def Sess.threads (x : Sess) : Nat := (if x.recvThr then 1 else 0) + (if x.streamThr then 1 else 0)

inductive AckRes where
  | ok | fail | raise (e : Err)
  deriving DecidableEq, Repr

/-- write a set / start / stop request and wait for its ACK (`_get_ack`): without a device, or with
    a device that does not support ACK, success at once and nothing is awaited -/
def ackReq (x : Sess) (r : Sent) (timeout : Nat) : AckRes × Sess :=
  let x := { x with log := x.log ++ [r] }
  if x.started && Info.ackSupported x.dev.flags then
    let (resp, st) := x.st.next
    match resp with
    | .ok => (.ok, { x with st := st })
    | .silent => (.fail, { x with st := { st with time := st.time + timeout } })
    | .noise => (.fail, { x with st := { st with time := st.time + timeout } })
    | .swallowed _ => (.fail, { x with st := { st with time := st.time + timeout } })
    | .garbage => (.fail, { x with st := st.poison (st.time + timeout) })
    | .wrongStream => (.fail, { x with st := { st with time := st.time + timeout } })  -- lands in the stream queue
    | .badName => (.ok, { x with st := st })             -- no name in an ACK: answered correctly
    | .nack => (.fail, { x with st := st })              -- ACK frame with a non-zero code
    | .wrong => (.fail, { x with st := st })             -- some other frame: `frame_ack_decode` → None
    | .short => (.raise .structError, { x with st := st }) -- ACK frame of the wrong size (outside the fault classes)
  else (.ok, x)

/-- the link state the handshake loop of `_start` begins with: reassembly buffer emptied (F21), stop
    request written (not awaited: no device yet), queues drained -/
def startState (st : St) : St := dropAll { st.unpoison with sent := [.stop] }

/-- `CommHandler.connect()` (`_start`): no-op when started; else interface, stop request (not
    awaited: no device yet), drain, empty reassembly buffer, receive thread, handshake -/
def commConnect (x : Sess) : Outcome × Sess :=
  if x.started then (.connected x.dev.chmax x.dev.flags x.dev.rxpadding, x)
  else
    match connectLoop x.dev (startState x.st) connectAttempts with
    | (.connected a b c, s) =>
      (.connected a b c, { x with st := s, log := x.log ++ s.sent.map .info, started := true, recvThr := true, intf := true })
    | (.raised e, s) =>
      (.raised e, { x with st := s, log := x.log ++ s.sent.map .info, recvThr := !startCleansUp, intf := !startCleansUp })

/-- `CommHandler.disconnect()` (`_stop`): acts only when started -/
def commDisconnect (x : Sess) : Sess :=
  if x.started then { x with st := dropAll x.st, recvThr := false, intf := false, started := false }
  else x

/-- an ACK wait whose answer is not looked at by the caller: only an exception matters -/
def ackStep (x : Sess) (r : Sent) (timeout : Nat) : Option Err × Sess :=
  match ackReq x r timeout with
  | (.raise e, y) => (some e, y)
  | (_, y) => (none, y)

/-- `CommHandler.channels_write()`: assert a device; nothing for a device without channels; divider
    request if supported, then enable request; each waits for its ACK, the answers are not looked at here -/
def channelsWrite (x : Sess) : Option Err × Sess :=
  if !x.started then (some .assertion, x)
  else if x.dev.chmax = 0 then (none, x)
  else if Info.divSupported x.dev.flags then
    match ackStep x .div ackTimeoutDiv with
    | (some e, y) => (some e, y)
    | (none, y) => ackStep y .enable ackTimeoutEnable
  else ackStep x .enable ackTimeoutEnable

/-- `NxscopeHandler.stream_stop()`: stop request, then `thread_stop()` of the stream thread, which
    waits `w ≤ streamPollTimeout` for the thread's current `stream_data()` poll (the adversary's choice) -/
def hlStreamStop (x : Sess) (w : Nat) : Option Err × Sess :=
  if x.streamStarted then
    match ackStep x (.info .stop) ackTimeoutStop with
    | (some e, y) => (some e, y)
    | (none, y) =>
      let wait := if y.streamThr then min w streamPollTimeout else 0
      (none, { y with st := { y.st with time := y.st.time + wait }, streamThr := false, streamStarted := false })
  else (none, x)

/-- `NxscopeHandler.stream_start()` -/
def hlStreamStart (x : Sess) : Option Err × Sess :=
  if x.streamStarted then (none, x)
  else
    match channelsWrite x with
    | (some e, y) => (some e, y)
    | (none, y) =>
      match ackStep y .start ackTimeoutStart with
      | (some e, z) => (some e, z)
      | (none, z) => (none, { z with streamThr := true, streamStarted := true })

/-- `NxscopeHandler.connect()` -/
def hlConnect (x : Sess) : Outcome × Sess :=
  if x.connected then (.connected x.dev.chmax x.dev.flags x.dev.rxpadding, x)
  else
    match commConnect x with
    | (.connected a b c, y) => (.connected a b c, { y with connected := true })
    | (.raised e, y) => (.raised e, y)

/-- `NxscopeHandler.disconnect()`: stream stop, disable-all written now, `CommHandler.disconnect()` -/
def hlDisconnect (x : Sess) (w : Nat) : Option Err × Sess :=
  if x.connected then
    match hlStreamStop x w with
    | (some e, y) => (some e, y)
    | (none, y) =>
      match channelsWrite y with
      | (some e, z) => (some e, z)
      | (none, z) => (none, { commDisconnect z with connected := false })
  else (none, x)

/-- time bound of the high-level disconnect: stop ACK, stream-thread poll, divider ACK, enable ACK, drain -/
def hlDisconnectBound : Nat :=
  ackTimeoutStop + streamPollTimeout + ackTimeoutDiv + ackTimeoutEnable +
    (drainPolls * drainPollTime + drainStreamPolls * drainStreamPollTime)

inductive Level where
  | low | high
  deriving DecidableEq, Repr

inductive Op where
  | connect | streamStart | streamStop | disconnect | pause
  deriving DecidableEq, Repr

inductive OpRes where
  | ok | ack | noack
  | connected (chmax flags rxp : Nat)
  | raised (e : Err)
  deriving DecidableEq, Repr

def pauseTime : Nat := 3

def ofOutcome : Outcome → OpRes
  | .connected a b c => .connected a b c
  | .raised e => .raised e

def ofErr : Option Err → OpRes
  | none => .ok
  | some e => .raised e

def ofAck : AckRes → OpRes
  | .ok => .ack
  | .fail => .noack
  | .raise e => .raised e

/-- one public call; `w` = how long the stream thread's current poll still lasts when it is joined -/
def step (lvl : Level) (x : Sess) (op : Op) (w : Nat) : OpRes × Sess :=
  match op with
  | .pause => (.ok, { x with st := { x.st with time := x.st.time + pauseTime } })
  | .connect =>
    match lvl with
    | .low => let (o, y) := commConnect x; (ofOutcome o, y)
    | .high => let (o, y) := hlConnect x; (ofOutcome o, y)
  | .disconnect =>
    match lvl with
    | .low => (.ok, commDisconnect x)
    | .high => let (e, y) := hlDisconnect x w; (ofErr e, y)
  | .streamStart =>
    match lvl with
    | .low => let (a, y) := ackReq x .start ackTimeoutStart; (ofAck a, y)
    | .high => let (e, y) := hlStreamStart x; (ofErr e, y)
  | .streamStop =>
    match lvl with
    | .low => let (a, y) := ackReq x (.info .stop) ackTimeoutStop; (ofAck a, y)
    | .high => let (e, y) := hlStreamStop x w; (ofErr e, y)

/-- a whole session: the calls in order, each with the adversary's choice of the stream-thread wait -/
def run (lvl : Level) (x : Sess) : List (Op × Nat) → List OpRes × Sess
  | [] => ([], x)
  | (op, w) :: rest =>
    let (r, y) := step lvl x op w
    let (rs, z) := run lvl y rest
    (r :: rs, z)

/-- time bound of one call -/
def opBound (lvl : Level) (chmax : Nat) : Op → Nat
  | .pause => pauseTime
  | .connect => bound chmax
  | .disconnect =>
    match lvl with
    | .low => drainPolls * drainPollTime + drainStreamPolls * drainStreamPollTime
    | .high => hlDisconnectBound
  | .streamStart =>
    match lvl with
    | .low => ackTimeoutStart
    | .high => ackTimeoutDiv + ackTimeoutEnable + ackTimeoutStart
  | .streamStop =>
    match lvl with
    | .low => ackTimeoutStop
    | .high => ackTimeoutStop + streamPollTimeout

end Handshake

/-! ### the receive thread

`CommHandler.__init__` builds `ThreadCommon(self._recv_thread, name="recv")`: no init and no final
callback.  The thread executes the generated `_thread_loop` program (`Gen.Thread.threadLoop`, with
the instruction semantics of `Worker.execW`); its target call is one invocation of the
receive-thread body `Reasm.readFrame` against what the link delivers from then on. -/
namespace RecvThread
open Worker

def cfg : Cfg := ⟨false, false⟩

structure T where
  w : Worker.Worker
  buf : Bytes             -- `_prev_read`
  rs : List Bytes         -- results of the coming `intf.read()` calls (exhausted: empty reads)
  calls : Nat := 0        -- invocations of the body so far
  exited : Bool := false

/-- the shared state as the worker sees it: only the stop flag matters to the loop program -/
def shared (flag : Bool) : State := ⟨.idle, flag, none, [], true, false, false⟩

/-- one instruction of the receive thread while the stop flag has the value `flag` -/
def step (c : Codec) (fuel : Nat) (flag : Bool) (t : T) : T :=
  if t.exited then t
  else
    match loopProg[t.w.pc]? with
    | none => { t with exited := true }
    | some i =>
      match execW cfg i (shared flag) t.w with
      | .next ev _ w' =>
        if ev = Ev.target then
          let r := Reasm.readFrame c fuel t.buf t.rs
          { t with w := w', buf := r.2.1, rs := r.2.2, calls := t.calls + 1 }
        else { t with w := w' }
      | .exit => { t with exited := true }
      | .raise => { t with exited := true }

/-- `n` instructions -/
def run (c : Codec) (fuel : Nat) (flag : Bool) : Nat → T → T
  | 0, t => t
  | n + 1, t => run c fuel flag n (step c fuel flag t)

/-- the thread at instruction `pc` of the loop program -/
def at_ (pc : Nat) (buf : Bytes) (rs : List Bytes) : T :=
  { w := { Worker.fresh with st := .running, pc := pc }, buf := buf, rs := rs }

end RecvThread
end Nxs
