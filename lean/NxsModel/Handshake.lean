/-
  Handshake: model of `CommHandler._start / _devinfo_get / _drop_all_frames / _stop` (comm.py)
  against an adversarial link.  The link is a script of responses, one per info request the
  client sends (exhausted script: a default response); blocking calls are charged in virtual
  time (tenths of a second) with the timeouts and retry counters of `Gen.Comm`.

  What the link may do per request (`Resp`): answer correctly, stay silent (also: answer with
  bytes that contain no decodable frame), answer with a well-formed frame of another kind, or
  answer with a frame of the right kind whose payload is too short to unpack (CPython raises
  `struct.error`).  Unsolicited frames are not part of this model (the draining loops only count
  empty polls; see DESIGN.md section 5/C10).
-/
import NxsModel.Gen.Comm
import NxsModel.Info
namespace Nxs
namespace Handshake
open Gen.Comm

inductive Resp where
  | ok | silent | wrong | short
  deriving DecidableEq, Repr

/-- the device description the link answers with when it answers correctly -/
structure DevDesc where
  chmax : Nat
  flags : Nat
  rxpadding : Nat
  deriving DecidableEq, Repr

inductive Req where
  | stop | cmninfo | chinfo (c : Nat) | padding (n : Nat)
  deriving DecidableEq, Repr

inductive Outcome where
  | connected (chmax flags rxp : Nat)
  | raised (e : Err)
  deriving DecidableEq, Repr

structure St where
  time : Nat := 0
  sent : List Req := []
  script : List Resp
  dflt : Resp
  padding : Nat := 0          -- current write padding of the interface
  deriving Repr

def St.next (s : St) : Resp × St :=
  match s.script with
  | [] => (s.dflt, s)
  | r :: rest => (r, { s with script := rest })

/-- `_drop_all_frames` on empty queues: 4 + 4 empty polls -/
def dropAll (s : St) : St :=
  { s with time := s.time + drainPolls * drainPollTime + drainStreamPolls * drainStreamPollTime }

/-- result of one info request: a usable answer, nothing usable (→ `None`), or an exception -/
inductive Got where
  | answer | nothing | raise (e : Err)
  deriving DecidableEq, Repr

/-- send a request and wait for its response (`_nxslib_cmninfo` / `_nxslib_chinfo`) -/
def request (s : St) (r : Req) (timeout : Nat) : Got × St :=
  let s := { s with sent := s.sent ++ [r] }
  let (resp, s) := s.next
  match resp with
  | .ok => (.answer, s)
  | .silent => (.nothing, { s with time := s.time + timeout })
  | .wrong => (.nothing, s)
  | .short => (.raise .structError, s)

/-- the `while chan is None` loop for channel `i` with `k` attempts left -/
def chinfoLoop (s : St) (i : Nat) : Nat → Got × St
  | 0 => (.nothing, s)
  | k + 1 =>
    match request s (.chinfo i) chinfoTimeout with
    | (.answer, s') => (.answer, s')
    | (.raise e, s') => (.raise e, s')
    | (.nothing, s') => chinfoLoop s' i k

/-- channels `i, i+1, …` (`n` of them left) -/
def chinfoAll (s : St) : Nat → Nat → Got × St
  | _, 0 => (.answer, s)
  | i, n + 1 =>
    match chinfoLoop s i chinfoAttempts with
    | (.answer, s') => chinfoAll s' (i + 1) n
    | other => other

/-- `_devinfo_get` -/
def devinfoGet (dev : DevDesc) (s : St) : Got × St :=
  match request s .cmninfo cmninfoTimeout with
  | (.answer, s1) =>
    let s2 :=
      if dev.rxpadding > 0 ∧ s1.padding ≠ dev.rxpadding then
        { s1 with padding := dev.rxpadding, sent := s1.sent ++ [.padding dev.rxpadding] }
      else s1
    chinfoAll (dropAll s2) 0 dev.chmax
  | other => other

/-- the bounded `while self._dev is None` loop of `_start` with `k` attempts left -/
def connectLoop (dev : DevDesc) (s : St) : Nat → Outcome × St
  | 0 => (.raised .timeout, s)
  | k + 1 =>
    match devinfoGet dev s with
    | (.answer, s') => (.connected dev.chmax dev.flags dev.rxpadding, s')
    | (.raise e, s') => (.raised e, s')
    | (.nothing, s') => connectLoop dev s' k

structure Result where
  outcome : Outcome
  time : Nat
  sent : List Req
  recvThreadRunning : Bool      -- after connect returned / raised
  intfRunning : Bool
  deriving DecidableEq, Repr

/-- `connect()` from the disconnected state: start interface, stop request, drain, start the
    receive thread, handshake; on failure stop thread and interface (if the code does) and re-raise -/
def connect (dev : DevDesc) (script : List Resp) (dflt : Resp) : Result :=
  let s0 : St := { script := script, dflt := dflt, sent := [.stop] }
  let s1 := dropAll s0
  match connectLoop dev s1 connectAttempts with
  | (.connected a b c, s) => ⟨.connected a b c, s.time, s.sent, true, true⟩
  | (.raised e, s) => ⟨.raised e, s.time, s.sent, !startCleansUp, !startCleansUp⟩

/-- `disconnect()` of the low-level handler after that connect: `_stop` acts only when started -/
def disconnectAfter (r : Result) : Result :=
  match r.outcome with
  | .connected .. =>
    { r with recvThreadRunning := false, intfRunning := false,
             time := r.time + drainPolls * drainPollTime + drainStreamPolls * drainStreamPollTime }
  | .raised _ => r

/-- the explicit time bound: first drain + attempts × (cmninfo wait + drain + channels × tries × chinfo wait) -/
def bound (chmax : Nat) : Nat :=
  let drain := drainPolls * drainPollTime + drainStreamPolls * drainStreamPollTime
  drain + connectAttempts * (cmninfoTimeout + drain + chmax * chinfoAttempts * chinfoTimeout)

end Handshake
end Nxs
