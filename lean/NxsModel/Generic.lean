/-
  Generic: the client request builders (`Parser.frame_start/cmninfo/chinfo/enable/div`) and the
  device-side response builders (`ParseRecv.frame_cmninfo_encode/frame_chinfo_encode/
  frame_stream_encode/frame_ack_encode`) written against the codec object `self._frame` only (C20).

  Every builder of nxslib is `payload = <message codec>(args); return self._frame.frame_create(id, payload)`.
  The PAYLOAD functions are those of `Requests.lean` / `Info.lean` / `Stream.lean` (codec-independent);
  the framing is the `frameCreate` field of the codec `c`.  At `c = Serial.codec` these definitions
  ARE the ones of `Requests.lean` / `Info.lean` / `Stream.lean` (`serial_*` below: unfold both sides, `Serial.codec.frameCreate` is `Serial.frameCreate`).
  Mathlib-free, executable (used by the driver, `Driver/Family.lean`).
-/
import NxsModel.Codec
import NxsModel.Requests
import NxsModel.Info
import NxsModel.Stream
namespace Nxs
namespace Generic
open Gen.Ids
open Requests (SetReq byteOf frameSetData allSame enBulk divBulk)

/-- `self._frame.frame_create(fid, payload)` -/
def frameWith (c : Codec) (fid : Nat) (payload : Bytes) : Except Err Bytes :=
  c.frameCreate fid (some payload)

/-! ### client side: `Parser(frame=cls)` -/

def frameSetSingle (c : Codec) (id : Nat) (data : Bytes) (chan : Int) : Except Err Bytes :=
  if data.length ≠ 1 then .error .assertion
  else (frameSetData Gen.Fmt.flagSingle chan).bind fun h => frameWith c id (h ++ data)

def frameSetBulk (c : Codec) (id : Nat) (data : Bytes) : Except Err Bytes :=
  if ¬ data.length > 0 then .error .assertion
  else (frameSetData Gen.Fmt.flagBulk 0).bind fun h => frameWith c id (h ++ data)

def frameSetAll (c : Codec) (id : Nat) (data : Bytes) : Except Err Bytes :=
  if data.length ≠ 1 then .error .assertion
  else (frameSetData Gen.Fmt.flagAll 0).bind fun h => frameWith c id (h ++ data)

def frameStart (c : Codec) (start : Bool) : Except Err Bytes :=
  (pack Gen.Fmt.start [.bool start]).bind fun b => frameWith c idSTART b

/-- `frame_create(EParseId.CMNINFO, None)` -/
def frameCmninfo (c : Codec) : Except Err Bytes := c.frameCreate idCMNINFO none

def frameChinfo (c : Codec) (chan : Int) : Except Err Bytes :=
  (pack Gen.Fmt.chinfoReq [.int chan]).bind fun b => frameWith c idCHINFO b

def frameEnable (c : Codec) (req : SetReq Bool) (chmax : Nat) : Except Err Bytes :=
  match req with
  | .single chan v => frameSetSingle c idENABLE [if v then 1 else 0] chan
  | .vec vs =>
    if vs.length = chmax ∧ allSame vs then
      match vs with
      | [] => .error .indexError
      | v :: _ => frameSetAll c idENABLE [if v then 1 else 0]
    else (enBulk vs chmax 0).bind fun d => frameSetBulk c idENABLE d

def frameDiv (c : Codec) (req : SetReq Int) (chmax : Nat) : Except Err Bytes :=
  match req with
  | .single chan v => (byteOf v).bind fun b => frameSetSingle c idDIV b chan
  | .vec vs =>
    if vs.length = chmax ∧ allSame vs then
      match vs with
      | [] => .error .indexError
      | v :: _ => (byteOf v).bind fun b => frameSetAll c idDIV b
    else (divBulk vs chmax 0).bind fun d => frameSetBulk c idDIV d

/-! ### device side: `ParseRecv(cb, frame=cls)` -/

def cmninfoEncode (c : Codec) (chmax flags rxpadding : Int) : Except Err Bytes :=
  (Info.cmninfoData chmax flags rxpadding).bind fun b => frameWith c idCMNINFO b

def chinfoEncode (c : Codec) (cfg : Info.ChanCfg) : Except Err Bytes :=
  (Info.chinfoData cfg).bind fun b => frameWith c idCHINFO b

def ackEncode (c : Codec) (r : Int) : Except Err Bytes :=
  (Info.ackData r).bind fun b => frameWith c idACK b

/-- `frame_stream_encode`: the STREAM frame, or `none` when there is nothing to send -/
def frameStreamEncode (c : Codec) (user : List Stream.UserType) (ss : List Stream.Sample) :
    Except Err (Option Bytes) :=
  (Stream.streamDataEncode user ss).bind fun o =>
    match o with
    | none => .ok none
    | some p => (frameWith c idSTREAM p).bind fun f => .ok (some f)

/-! ### at the built-in codec these are the existing models -/

theorem codec_create : Serial.codec.frameCreate = Serial.frameCreate := rfl

theorem frameWith_serial : frameWith Serial.codec = fun fid p => Serial.frameCreate fid (some p) := rfl

theorem serial_frameWith (fid : Nat) (p : Bytes) :
    frameWith Serial.codec fid p = Serial.frameCreate fid (some p) := rfl

theorem serial_frameStart (b : Bool) : Requests.frameStart b = frameStart Serial.codec b := by
  unfold frameStart Requests.frameStart; rw [frameWith_serial]

theorem serial_frameCmninfo : Requests.frameCmninfo = frameCmninfo Serial.codec := by
  unfold Requests.frameCmninfo frameCmninfo; rw [codec_create]

theorem serial_frameChinfo (ch : Int) : Requests.frameChinfo ch = frameChinfo Serial.codec ch := by
  unfold frameChinfo Requests.frameChinfo; rw [frameWith_serial]

theorem serial_frameSetSingle (id : Nat) (d : Bytes) (ch : Int) :
    Requests.frameSetSingle id d ch = frameSetSingle Serial.codec id d ch := by
  unfold frameSetSingle Requests.frameSetSingle; rw [frameWith_serial]

theorem serial_frameSetBulk (id : Nat) (d : Bytes) :
    Requests.frameSetBulk id d = frameSetBulk Serial.codec id d := by
  unfold frameSetBulk Requests.frameSetBulk; rw [frameWith_serial]

theorem serial_frameSetAll (id : Nat) (d : Bytes) :
    Requests.frameSetAll id d = frameSetAll Serial.codec id d := by
  unfold frameSetAll Requests.frameSetAll; rw [frameWith_serial]

theorem serial_frameEnable (req : SetReq Bool) (n : Nat) :
    Requests.frameEnable req n = frameEnable Serial.codec req n := by
  unfold Requests.frameEnable frameEnable
  simp only [serial_frameSetSingle, serial_frameSetAll, serial_frameSetBulk]
  cases req with
  | single ch v => rfl
  | vec vs => cases vs <;> rfl

theorem serial_frameDiv (req : SetReq Int) (n : Nat) :
    Requests.frameDiv req n = frameDiv Serial.codec req n := by
  unfold Requests.frameDiv frameDiv
  simp only [serial_frameSetSingle, serial_frameSetAll, serial_frameSetBulk]
  cases req with
  | single ch v => rfl
  | vec vs => cases vs <;> rfl

theorem serial_cmninfoEncode (a b x : Int) : Info.cmninfoEncode a b x = cmninfoEncode Serial.codec a b x := by
  unfold cmninfoEncode Info.cmninfoEncode; rw [frameWith_serial]

theorem serial_chinfoEncode (cfg : Info.ChanCfg) : Info.chinfoEncode cfg = chinfoEncode Serial.codec cfg := by
  unfold chinfoEncode Info.chinfoEncode; rw [frameWith_serial]

theorem serial_ackEncode (r : Int) : Info.ackEncode r = ackEncode Serial.codec r := by
  unfold ackEncode Info.ackEncode; rw [frameWith_serial]

theorem serial_frameStreamEncode (user : List Stream.UserType) (ss : List Stream.Sample) :
    Stream.frameStreamEncode user ss = frameStreamEncode Serial.codec user ss := by
  unfold frameStreamEncode Stream.frameStreamEncode; rw [frameWith_serial]
  rfl

end Generic
end Nxs
