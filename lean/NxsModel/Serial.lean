/-
  Serial: model of `proto/serialframe.py` (SerialFrame), parameterised by the generated
  constants, formats, guards and CRC row (`Gen.Frame`, `Gen.Crc`, `Gen.Ids`).
-/
import NxsModel.Struct
import NxsModel.Crc
import NxsModel.Gen.Frame
import NxsModel.Gen.Crc
import NxsModel.Gen.Ids
namespace Nxs
namespace Serial
open Gen.Frame

structure Hdr where
  fid : Nat
  flen : Nat
  deriving DecidableEq, Repr

structure Frame where
  fid : Nat
  data : Bytes
  deriving DecidableEq, Repr

/-- `data.find(bytes([SOF]))` : index of the first start byte -/
def hdrFind (d : Bytes) : Option Nat :=
  let i := d.findIdx (· = BitVec.ofNat 8 sof)
  if i < d.length then some i else none

/-- `SerialFrame.hdr_decode` -/
def hdrDecode (d : Bytes) : Except Err Hdr :=
  if hdrGuardShort && d.length < hdrLen then .error .hdr
  else
    match unpack hdrFmtDecode (d.take hdrLen) with
    | .ok [.int s, .int flen, .int id] =>
      if hdrGuardSof && s ≠ (sof : Int) then .error .hdr
      else if hdrGuardId && !(Gen.Ids.parseIds.contains id.toNat) then .error .hdr
      else .ok ⟨id.toNat, flen.toNat⟩
    | .ok _ => .error .structError
    | .error e => .error e

/-- `SerialFrame.foot_validate`: the CRC residue over all of `d` is zero -/
def footValidate (d : Bytes) : Bool := crc Gen.Crc.params d = 0

/-- `SerialFrame.frame_decode` -/
def frameDecode (d : Bytes) : Except Err Frame :=
  match hdrDecode d with
  | .error e => .error e
  | .ok h =>
    if decGuardMin && h.flen < hdrLen + footLen then .error .foot
    else if decGuardMax && h.flen > d.length then .error .foot
    else if decGuardCrc && !footValidate (d.take h.flen) then .error .foot
    else .ok ⟨h.fid, slice d hdrLen (h.flen - decPayloadTail)⟩

/-- body of `frame_create` after the assertion: header ++ payload ++ CRC footer -/
def frameCreateBody (fid : Nat) (p : Bytes) : Except Err Bytes :=
  (pack hdrFmtCreate [.int sof, .int (baseLen + p.length : Nat), .int fid]).bind fun h =>
    (pack footFmt [.int (crc Gen.Crc.params (h ++ p)).toNat]).bind fun f =>
      .ok (h ++ p ++ f)

/-- `SerialFrame.frame_create`; `none` payload is Python's `None` (adds no bytes) -/
def frameCreate (fid : Nat) (data : Option Bytes) : Except Err Bytes :=
  if fid > fidMax then .error .assertion else frameCreateBody fid (data.getD [])

end Serial
end Nxs
