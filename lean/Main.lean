/-
  Line-protocol driver: stdin → model → stdout.  Run with `lake env lean --run Main.lean`
  (or the compiled `nxsdriver`).  Unknown or malformed operations answer `bad-op`.
-/
import NxsModel.Driver.Frame
import NxsModel.Driver.Codec
import NxsModel.Driver.Info
import NxsModel.Driver.Record
import NxsModel.Driver.DevRecords
import NxsModel.Driver.Pad
import NxsModel.Driver.Stream
import NxsModel.Driver.Reasm
import NxsModel.Driver.Config
import NxsModel.Driver.ConfigExt
import NxsModel.Driver.Requests
import NxsModel.Driver.Handshake
import NxsModel.Driver.Fanout
import NxsModel.Driver.Lifecycle
import NxsModel.Driver.Worker
import NxsModel.Driver.Family
import NxsModel.Driver.Pipe
import NxsModel.Driver.Locks
import NxsModel.Driver.Dummy
open Nxs Nxs.Driver

def dispatch (toks : List String) : String :=
  match toks with
  | "frame" :: rest => (frameOp rest).getD "bad-op"
  | "recv" :: rest => (recvOp rest).getD "bad-op"
  | "req" :: "hist" :: rest => (reqHistOp rest).getD "bad-op"
  | "req" :: "sess" :: rest => (reqSessOp rest).getD "bad-op"
  | "req" :: rest => (reqOp rest).getD "bad-op"
  | "info" :: rest => (infoOpX rest).getD "bad-op"
  | "pad" :: rest => (padOp rest).getD "bad-op"
  | "padreq" :: rest => (padReqOp rest).getD "bad-op"
  | "rec" :: "devseq" :: rest => (devRecordsOp rest).getD "bad-op"
  | "rec" :: rest => (recordOp rest).getD "bad-op"
  | "stream" :: rest => (streamOp rest).getD "bad-op"
  | "reasm" :: rest => (reasmOp rest).getD "bad-op"
  | "cfg" :: rest => (cfgOp rest).getD "bad-op"
  | "cfgx" :: rest => (cfgxOp rest).getD "bad-op"
  | "hs" :: rest => (hsOp rest).getD "bad-op"
  | "fan" :: rest => (fanOp rest).getD "bad-op"
  | "life" :: rest => (lifeOp rest).getD "bad-op"
  | "worker" :: rest => (workerOp rest).getD "bad-op"
  | "fam" :: rest => (famOp rest).getD "bad-op"
  | "pipe" :: rest => (pipeOp rest).getD "bad-op"
  | "locks" :: rest => (locksOp rest).getD "bad-op"
  | "dummy" :: rest => (dummyOp rest).getD "bad-op"
  | _ => "bad-op"

partial def loop (h : IO.FS.Stream) (out : IO.FS.Stream) : IO Unit := do
  let line ← h.getLine
  if line.isEmpty then return ()
  let toks := (line.trimAscii.toString.splitOn " ").filter (· ≠ "")
  out.putStrLn (dispatch toks)
  loop h out

def main : IO Unit := do
  let out ← IO.getStdout
  loop (← IO.getStdin) out
  out.flush
