-- root of the library: every model, lemma and property module
import NxsModel.Props.C01
import NxsModel.Props.C02
import NxsModel.Stream
import NxsModel.Record
import NxsModel.Pad
import NxsModel.Requests
import NxsModel.Props.C05
import NxsModel.Props.C17
import NxsModel.Props.C06
import NxsModel.Props.C19
import NxsModel.Props.C03
import NxsModel.Handshake
import NxsModel.Config
import NxsModel.Props.C07
import NxsModel.Props.C11
import NxsModel.Props.C10
