-- root of the library: every model, lemma and property module
import NxsModel.Props.C01
