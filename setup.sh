#!/bin/sh
# one-time (and idempotent) offline build of the Lean library, theorems and model driver
cd "$(dirname "$0")" || exit 2
export PATH="/opt/veriftools/lean/bin:$PATH"
/venv/bin/python harness/translate.py || exit 1
cd lean && lake build NxsModel nxsdriver
